// U_unsync: unsync::Arena allocation / release / free-list functions, translated by the rule table of
// DESIGN.md 3.2 from the current /repo text.  Contracts are injected from this file.
use vstd::prelude::*;
use vstd::layout::*;
use core::mem;
verus! {

global size_of usize == 8; // assumption: 64-bit target

//@@include spec_arith.rs
//@@include spec_mem.rs
//@@include lemmas_list.rs
//@@include spec_ops.rs
//@@include lemmas_det.rs
//@@include lemmas_excl.rs
//@@include shim_unsync.rs

/// assumption (x86_64 / every 64-bit Rust target): u64 and AtomicU64 are 8 bytes, 8-aligned
#[verifier::external_body]
pub proof fn axiom_u64_layout()
  ensures layout_ok::<u64>(), align_of::<u64>() == 8, size_of::<u64>() == 8
{}

// ---- lib.rs: node word codec, align_offset, Meta -------------------------------------------------------

//@@fn file=lib.rs name=decode_segment_node
//@contract
  ensures r == dec(val),
//@@end

//@@fn file=lib.rs name=encode_segment_node
//@contract
  ensures r == enc(size, next),
//@@end

//@@fn file=lib.rs name=align_offset props=C03,C04
//@contract
  requires
    layout_ok::<T>(),
    current_offset as int + align_of::<T>() as int <= u32::MAX as int, // [C04]
  ensures
    r as int == align_up(current_offset as int, align_of::<T>() as int), // [C03]
    r >= current_offset, // [C03]
    (r as int - current_offset as int) < (align_of::<T>() as int), // [C03]
    r as int % (align_of::<T>() as int) == 0, // [C03]
//@before 1 /\(current_offset \+ alignment - 1\)/
  proof {
    let x = current_offset; let a = alignment;
    assert(a != 0 && a & sub(a,1) == 0 && add(x, sub(a,1)) >= x ==>
       ({ let r = add(x, sub(a, 1)) & !sub(a,1); r >= x && sub(r, x) < a && r % a == 0 })) by (bit_vector);
    lemma_align_up_unique(x as int, a as int, (add(x, sub(a, 1)) & !sub(a,1)) as int);
  }
//@@end

#[derive(Copy, Clone)]
pub struct Meta { pub parent_ptr: *const u8, pub memory_offset: u32, pub memory_size: u32, pub ptr_offset: u32, pub ptr_size: u32 }

impl Meta {
//@@fn file=lib.rs scope="impl Meta {" name=null props=C03
//@contract
  ensures r.memory_offset == 0, r.memory_size == 0, r.ptr_offset == 0, r.ptr_size == 0, r.parent_ptr == parent_ptr, // [C03 C01]
//@@end

//@@fn file=lib.rs scope="impl Meta {" name=new props=C03,C01
//@contract
  ensures r.memory_offset == memory_offset, r.memory_size == memory_size, r.ptr_offset == memory_offset, r.ptr_size == memory_size, r.parent_ptr == parent_ptr, // [C03 C01]
//@@end

//@@fn file=lib.rs scope="impl Meta {" name=clear props=C08,C01 st=mut
//@subst /<A: Allocator>\(&self, st: &mut St, arena: &A\)/ => (&self, arena: &Arena, st: &mut St)
//@subst /let ptr = arena\.raw_mut_ptr\(\)\.add\((.*?)\);\s*core::ptr::write_bytes\(ptr, (.*?), (.*?)\);/ => st.write_bytes(\1, \2, \3);
//@contract
  requires
    old(st)@.writable, // [C09]
    old(st)@.lo <= self.ptr_offset as int, // [C01 C16]
    self.ptr_offset as int + self.ptr_size as int <= old(st)@.bytes.len(), // [C01 C04]
  ensures
    final(st).hdr == old(st).hdr, final(st).list == old(st).list,
    final(st)@ == (SV { bytes: splice(old(st)@.bytes, self.ptr_offset as int, zeros(self.ptr_size as int)), ..old(st)@ }), // [C08]
//@after 1 /st\.write_bytes/
    proof { assert(Seq::new(self.ptr_size as usize as nat, |i: int| 0u8) =~= zeros(self.ptr_size as int)); }
//@@end

//@@fn file=lib.rs scope="impl Meta {" name=align_to props=C03
//@contract
  requires
    layout_ok::<T>(), size_of::<T>() <= u32::MAX as usize,
    old(self).memory_offset as int + align_of::<T>() as int <= u32::MAX as int, // [C04]
  ensures
    final(self).ptr_offset as int == align_up(old(self).memory_offset as int, align_of::<T>() as int), // [C03]
    final(self).ptr_size as int == size_of::<T>() as int, // [C03]
    final(self).memory_offset == old(self).memory_offset, final(self).memory_size == old(self).memory_size, // [C01]
    final(self).parent_ptr == old(self).parent_ptr,
//@@end

//@@fn file=lib.rs scope="impl Meta {" name=align_bytes_to props=C03
//@contract
  requires
    layout_ok::<T>(),
    old(self).memory_offset as int + align_of::<T>() as int <= u32::MAX as int, // [C04]
    old(self).memory_offset as int + old(self).memory_size as int <= u32::MAX as int, // [C04]
    align_up(old(self).memory_offset as int, align_of::<T>() as int) <= old(self).memory_offset as int + old(self).memory_size as int, // [C04]
  ensures
    final(self).ptr_offset as int == align_up(old(self).memory_offset as int, align_of::<T>() as int), // [C03]
    final(self).ptr_offset as int + final(self).ptr_size as int == old(self).memory_offset as int + old(self).memory_size as int, // [C03 C01]
    final(self).memory_offset == old(self).memory_offset, final(self).memory_size == old(self).memory_size, // [C01]
    final(self).parent_ptr == old(self).parent_ptr,
//@@end
}

// ---- unsync.rs: Segment ------------------------------------------------------------------------------------

#[derive(Copy, Clone)]
pub struct Segment { pub ptr: *mut u8, pub ptr_offset: u32, pub data_offset: u32, pub data_size: u32 }

impl Segment {
//@@fn file=unsync.rs scope="impl Segment {" name=from_offset props=C04
//@contract
  requires offset as int + 8 <= u32::MAX as int, // [C04]
  ensures r.ptr_offset == offset, r.data_offset == offset + 8, r.data_size == data_size, r.ptr == arena.ptr,
//@@end

//@@fn file=unsync.rs scope="impl Segment {" name=update_next_node xlate=unsync st=mut props=C10,C01
//@contract
  requires
    old(st)@.writable, // [C09]
    old(self).ptr_offset as int % 8 == 0 && old(st)@.lo <= old(self).ptr_offset as int && old(self).ptr_offset as int + 8 <= old(st)@.bytes.len(), // [C01 C04]
  ensures
    *final(self) == *old(self),
    final(st).hdr == old(st).hdr, final(st).list == old(st).list,
    final(st)@ == (SV { bytes: splice(old(st)@.bytes, old(self).ptr_offset as int, b64(enc(old(self).data_size, next))), ..old(st)@ }), // [C10]
//@@end
}

impl Arena {
// ---- small helpers ---------------------------------------------------------------------------------------------

//@@fn file=unsync.rs scope="impl Arena {" name=get_segment_node xlate=unsync st=ref props=C01,C04
//@subst /unsafe \{\s*let ptr = self\.ptr\.add\(offset as usize\);\s*&\*\(ptr as \*const _\)\s*\}/ => CellRef::Node(offset)
//@contract @get_segment_node
//@@end

//@@fn file=unsync.rs scope="impl Arena {" name=pad props=C03,C04
//@contract @pad
//@@end

//@@fn file=unsync.rs scope="impl Allocator for Arena {" name=increase_discarded xlate=unsync st=mut props=C20,C09
//@contract @increase_discarded
//@@end

//@@fn file=unsync.rs scope="impl Allocator for Arena {" name=increase_discarded rename=increase_discarded__ro xlate=unsync st=mut props=C09
//@subst? /rt_panic\(\)/ => rt_panic_documented()
//@contract @increase_discarded__ro
//@@end

//@@fn file=unsync.rs scope="impl Allocator for Arena {" name=allocated xlate=unsync st=ref props=C15,C16
//@contract @allocated
//@@end

//@@fn file=unsync.rs scope="impl Allocator for Arena {" name=remaining xlate=unsync st=ref props=C16
//@contract @remaining
//@@end

//@@fn file=unsync.rs scope="impl Arena {" name=validate_segment xlate=unsync st=ref props=C10
//@contract @validate_segment
//@before 1 /let aligned_offset = align_offset::<u64>/
    proof { axiom_u64_layout(); }
//@@end

//@@fn file=unsync.rs scope="impl Arena {" name=try_new_segment xlate=unsync st=mut props=C10,C20
//@contract @try_new_segment
//@before 1 /let aligned_offset = align_offset::<u64>/
    proof { axiom_u64_layout(); }
//@@end

// ---- list traversal -----------------------------------------------------------------------------------------

//@@fn file=unsync.rs scope="impl Arena {" name=find_position xlate=unsync st=ref props=C10
//@attr #[verifier::spinoff_prover]
//@contract @find_position
//@before 1 /^\s*loop/
    let ghost mut idx: int = -1;
    proof { lemma_dec_enc(size_of_cell(st@.list, -1), next_of(st@.list, -1)); }
//@loop 1
      invariant
        wf_shape(self.av(), st@),
        forall|a: u32, b: u32| check.requires((a, b)),
        -1 <= idx < st@.list.len(),
        current == cell_of(st@.list, idx),
        *current_node == word(st@, current),
        current_node_size == size_of_cell(st@.list, idx),
        next_offset == next_of(st@.list, idx),
        forall|j: int| 0 <= j <= idx ==> check.ensures((val, #[trigger] st@.list[j].1), false),
      decreases st@.list.len() - idx,
//@before 1 /let next = self\.get_segment_node/
      proof { assert(node_ok(self.av(), st@, st@.list[idx + 1])); }
//@after 1 /let \(next_node_size, next_next_offset\)/
      proof {
        assert(next == cell_of(st@.list, idx + 1));
        lemma_dec_enc(size_of_cell(st@.list, idx + 1), next_of(st@.list, idx + 1));
      }
//@before 1 /current = next;/
      proof { idx = idx + 1; }
//@before 1 /return \(\*current_node, current\);/
        proof { assert forall|asc: bool| #[trigger] tr(asc) && cmp_is(check, asc) implies fp_post(st@, val, asc, (*current_node, current)) by { lemma_first_idx(st@.list, val, asc, idx + 1); } }
//@before 2 /return \(\*current_node, current\);/
        proof { assert forall|asc: bool| #[trigger] tr(asc) && cmp_is(check, asc) implies fp_post(st@, val, asc, (*current_node, current)) by { lemma_first_idx(st@.list, val, asc, idx + 1); } }
//@before 3 /return \(\*current_node, current\);/
        proof { assert forall|asc: bool| #[trigger] tr(asc) && cmp_is(check, asc) implies fp_post(st@, val, asc, (*current_node, current)) by { lemma_first_idx(st@.list, val, asc, idx + 1); } }
//@before 4 /return \(\*current_node, current\);/
        proof { assert forall|asc: bool| #[trigger] tr(asc) && cmp_is(check, asc) implies fp_post(st@, val, asc, (*current_node, current)) by { lemma_first_idx(st@.list, val, asc, idx + 1); } }
//@@end

//@@fn file=unsync.rs scope="impl Arena {" name=find_prev_and_next xlate=unsync st=ref props=C10
//@attr #[verifier::spinoff_prover]
//@contract @find_prev_and_next
//@before 1 /^\s*loop/
    let ghost mut idx: int = -1;
    proof { lemma_dec_enc(size_of_cell(st@.list, -1), next_of(st@.list, -1)); }
//@loop 1
      invariant
        wf_shape(self.av(), st@),
        forall|a: u32, b: u32| check.requires((a, b)),
        -1 <= idx < st@.list.len(),
        current == cell_of(st@.list, idx),
        *current_node == word(st@, current),
        current_node_size == size_of_cell(st@.list, idx),
        next_offset == next_of(st@.list, idx),
        forall|j: int| 0 <= j <= idx ==> check.ensures((val, #[trigger] st@.list[j].1), false),
      decreases st@.list.len() - idx,
//@before 1 /let next = self\.get_segment_node/
      proof { assert(node_ok(self.av(), st@, st@.list[idx + 1])); }
//@after 1 /let \(next_node_size, next_next_offset\)/
      proof {
        assert(next == cell_of(st@.list, idx + 1));
        lemma_dec_enc(size_of_cell(st@.list, idx + 1), next_of(st@.list, idx + 1));
      }
//@before 1 /return Some\(\(\(\*current_node, current\)/
        proof { assert forall|asc: bool| #[trigger] tr(asc) && cmp_is(check, asc) implies fpn_post(st@, val, asc, Some(((*current_node, current), (*next_node, next)))) by { lemma_first_idx(st@.list, val, asc, idx + 1); } }
//@before 1 /current = self\.get_segment_node\(st, next_offset\);/
      proof { idx = idx + 1; }
//@before 1 /return None;/
        proof { assert forall|asc: bool| #[trigger] tr(asc) && cmp_is(check, asc) implies fpn_post(st@, val, asc, None) by { lemma_first_idx(st@.list, val, asc, idx + 1); } }
//@before 2 /return None;/
        proof { assert forall|asc: bool| #[trigger] tr(asc) && cmp_is(check, asc) implies fpn_post(st@, val, asc, None) by { lemma_first_idx(st@.list, val, asc, idx + 1); } }
//@before 3 /return None;/
        proof { assert forall|asc: bool| #[trigger] tr(asc) && cmp_is(check, asc) implies fpn_post(st@, val, asc, None) by { lemma_first_idx(st@.list, val, asc, idx + 1); } }
//@@end

// ---- release into the free list ---------------------------------------------------------------------------

//@@fn file=unsync.rs scope="impl Arena {" name=pessimistic_dealloc xlate=unsync st=mut props=C10,C01,C20
//@attr #[verifier::spinoff_prover]
//@closure
  b == (val <= next_node_size)
//@contract @pessimistic_dealloc
//@before 1 /let Some\(mut segment_node\) = self\.try_new_segment/
    proof { lemma_seg_node_bounds(offset as int, size as int); lemma_seg_valid_extent(self.av(), old(st)@, offset as int, size as int); }
//@before 1 /return false;/
      proof { lemma_wf_frame(self.av(), old(st)@, st@, 0, 0); }
//@after 1 /let Some\(mut segment_node\) = self\.try_new_segment/
    let ghost s0 = st@;
    let ghost n: Node = (segment_node.ptr_offset, segment_node.data_size);
    proof {
      lemma_seg_node_props(self.av(), s0, offset as int, size as int);
    }
//@after 1 /decode_segment_node\(current_node_size_and_next_node_offset\);/
    let ghost i: int = first_idx(s0.list, n.1, true) - 1;
    proof {
      lemma_first_idx_props_from(s0.list, n.1, true, 0);
      assert(tr(true));
      lemma_dec_enc(size_of_cell(s0.list, i), next_of(s0.list, i));
      if i >= 0 { assert(node_ok(self.av(), s0, s0.list[i])); }
    }
//@after 1 /segment_node\.update_next_node\(st, next_node_offset\);/
    let ghost s1 = st@;
//@after 1 /st\.store\(current, encode_segment_node\(node_size, segment_node\.ptr_offset\)\);/
    proof {
      st.list = Ghost(s0.list.insert(i + 1, n));
      lemma_insert_bytes(self.av(), s0, s1, st@, i, n);
      lemma_insert_shape(self.av(), s0, st@, i, n);
      lemma_insert_order(self.av(), s0, st@, i, n, true);
      lemma_frame_widen(s0.list, s0.bytes, st@.bytes, n.0 as int, n.0 as int + 8, offset as int, offset as int + size as int);
      lemma_free_grows_insert(s0, st@, i + 1, n, offset as int, offset as int + size as int);
    }
    let ghost s2 = st@;
//@after 1 /self\.increase_discarded\(st, segment_node\.data_offset - segment_node\.ptr_offset\);/
    proof { lemma_wf_frame(self.av(), s2, st@, 0, 0); }
//@@end

//@@fn file=unsync.rs scope="impl Arena {" name=optimistic_dealloc xlate=unsync st=mut props=C10,C01,C20
//@attr #[verifier::spinoff_prover]
//@closure
  b == (val >= next_node_size)
//@contract @optimistic_dealloc
//@before 1 /let Some\(mut segment_node\) = self\.try_new_segment/
    proof { lemma_seg_node_bounds(offset as int, size as int); lemma_seg_valid_extent(self.av(), old(st)@, offset as int, size as int); }
//@before 1 /return false;/
      proof { lemma_wf_frame(self.av(), old(st)@, st@, 0, 0); }
//@after 1 /let Some\(mut segment_node\) = self\.try_new_segment/
    let ghost s0 = st@;
    let ghost n: Node = (segment_node.ptr_offset, segment_node.data_size);
    proof {
      lemma_seg_node_props(self.av(), s0, offset as int, size as int);
    }
//@loop 1
      invariant
        st@ == s0,
        wf(self.av(), s0), self.freelist == Freelist::Optimistic, s0.writable,
        node_ok(self.av(), s0, n), clear_of_list(s0.list, n.0 as int, node_end(n)),
        n == (segment_node.ptr_offset, segment_node.data_size), segment_node.data_offset == segment_node.ptr_offset + 8,
        n == seg_node(offset as int, size as int), seg_valid(old(st)@, offset as int, size as int),
        offset as int <= n.0 as int, node_end(n) == offset as int + size as int,
        s0 == old(st)@,
        s0.discarded + 8 <= u32::MAX as int,
      decreases 0int,
//@after 1 /decode_segment_node\(current_node_size_and_next_node_offset\);/
    let ghost i: int = first_idx(s0.list, n.1, false) - 1;
    proof {
      lemma_first_idx_props_from(s0.list, n.1, false, 0);
      assert(tr(false));
      lemma_dec_enc(size_of_cell(s0.list, i), next_of(s0.list, i));
      if i >= 0 { assert(node_ok(self.av(), s0, s0.list[i])); }
    }
//@after 1 /segment_node\.update_next_node\(st, next_node_offset\);/
    let ghost s1 = st@;
//@after 1 /st\.store\(current, encode_segment_node\(node_size, segment_node\.ptr_offset\)\);/
    proof {
      st.list = Ghost(s0.list.insert(i + 1, n));
      lemma_insert_bytes(self.av(), s0, s1, st@, i, n);
      lemma_insert_shape(self.av(), s0, st@, i, n);
      lemma_insert_order(self.av(), s0, st@, i, n, false);
      lemma_frame_widen(s0.list, s0.bytes, st@.bytes, n.0 as int, n.0 as int + 8, offset as int, offset as int + size as int);
      lemma_free_grows_insert(s0, st@, i + 1, n, offset as int, offset as int + size as int);
    }
    let ghost s2 = st@;
//@after 1 /self\.increase_discarded\(st, segment_node\.data_offset - segment_node\.ptr_offset\);/
    proof { lemma_wf_frame(self.av(), s2, st@, 0, 0); }
//@@end

// ---- allocation from the free list (slow paths) -----------------------------------------------------------------

//@@fn file=unsync.rs scope="impl Arena {" name=alloc_slow_path_pessimistic xlate=unsync st=mut props=C01,C03,C04,C08,C09,C10,C20
//@attr #[verifier::spinoff_prover]
//@closure
  b == (val <= next_node_size)
//@contract @alloc_slow_path_pessimistic
//@before 1 /let Some\(\(\(prev_node_val, prev_node\), \(next_node_val, _\)\)\) =/
    let ghost s0 = st@;
    let ghost l = s0.list;
    let ghost k = first_idx(l, size, true);
    proof { lemma_first_idx_bounds(l, size, true); }
//@before 1 /return Err\(Error::InsufficientSpace/
      proof { assert(tr(true)); }
//@before 1 /let \(prev_node_size, next_node_offset\) = decode_segment_node\(prev_node_val\);/
    proof { assert(tr(true)); }
    let ghost n = l[k];
    proof {
      lemma_first_idx_props_from(l, size, true, 0);
      assert(chk(true, size, l[k].1));
      lemma_dec_enc(size_of_cell(l, k - 1), next_of(l, k - 1));
      lemma_dec_enc(size_of_cell(l, k), next_of(l, k));
      assert(node_ok(self.av(), s0, n));
      if k >= 1 { assert(node_ok(self.av(), s0, l[k - 1])); }
    }
//@after 1 /st\.store\(prev_node, updated_prev\);/
    proof {
      st.list = Ghost(l.remove(k));
      lemma_remove_bytes(self.av(), s0, st@, k);
      lemma_remove_shape(self.av(), s0, st@, k);
      lemma_remove_order(self.av(), s0, st@, k);
    }
    let ghost s1 = st@;
//@after 1 /let data_end_offset = segment_node\.data_offset \+ size;/
    proof {
      assert(s1.list == l.remove(k));
    }
//@after 1 /_dealloc\(st, data_end_offset, remaining\);/
      proof {
        lemma_first_idx_bounds(s1.list, seg_node(data_end_offset as int, remaining as int).1, true);
        lemma_clear_of_list_insert(s1.list, first_idx(s1.list, seg_node(data_end_offset as int, remaining as int).1, true), seg_node(data_end_offset as int, remaining as int), n.0 as int, data_end_offset as int);
      }
//@before 1 /let mut allocated = Meta::new\(self\.ptr as _, segment_node\.ptr_offset, memory_size\);/
    let ghost s2 = st@;
    proof {
      lemma_in_list_remove(l, k);
      lemma_frame_compose(l, s1.list, s0.bytes, s1.bytes, s2.bytes, data_end_offset as int, data_end_offset as int + remaining as int, k);
      assert(clear_of_list(s2.list, n.0 as int, data_end_offset as int));
    }
//@after 1 /allocated\.clear\(self, st\);/
    proof {
      lemma_zero_written(s2.bytes, n.0 as int + 8, size as int);
      lemma_clear_headers(s2.list, n.0 as int + 8, data_end_offset as int);
      lemma_wf_frame(self.av(), s2, st@, n.0 as int + 8, data_end_offset as int);
      lemma_first_idx_bounds(s1.list, seg_node(data_end_offset as int, remaining as int).1, asc_of(self.freelist));
      if seg_valid(s1, data_end_offset as int, remaining as int) { lemma_seg_node_props(self.av(), s1, data_end_offset as int, remaining as int); }
      assert(kept_in_free(s0, n.0 as int, node_end(n))) by { assert forall|b: int| n.0 as int <= b < node_end(n) implies #[trigger] in_free(s0, b) by { assert(in_node(l[k], b)); } }
      lemma_slow_free_shrinks(s0, st@, k, seg_valid(s1, data_end_offset as int, remaining as int), seg_node(data_end_offset as int, remaining as int),
        first_idx(s1.list, seg_node(data_end_offset as int, remaining as int).1, asc_of(self.freelist)));
      assert(frame_ok(l, s0.bytes, st@.bytes, 0, 0)) by {
        assert forall|b: int| 0 <= b < s0.bytes.len() implies st@.bytes[b] == s0.bytes[b] || 0 <= b < 0 || #[trigger] in_list(l, b) by {
          if n.0 as int + 8 <= b < data_end_offset as int { assert(in_node(l[k], b)); }
        }
      }
    }
//@@end

//@@fn file=unsync.rs scope="impl Arena {" name=alloc_slow_path_optimistic xlate=unsync st=mut props=C01,C03,C04,C08,C09,C10,C20
//@attr #[verifier::spinoff_prover]
//@contract @alloc_slow_path_optimistic
//@before 1 /let sentinel = st\.load\(CellRef::Sentinel\);/
    let ghost s0 = st@;
    let ghost l = s0.list;
    let ghost k: int = 0;
    proof {
      lemma_dec_enc(size_of_cell(l, -1), next_of(l, -1));
      assert(word(s0, cell_of(l, -1)) == enc(size_of_cell(l, -1), next_of(l, -1)));
    }
//@before 1 /let head = self\.get_segment_node\(st, head_node_offset\);/
    let ghost n = l[0];
    proof {
      assert(l.len() > 0);
      assert(node_ok(self.av(), s0, n));
      lemma_dec_enc(size_of_cell(l, 0), next_of(l, 0));
      assert(word(s0, cell_of(l, 0)) == enc(size_of_cell(l, 0), next_of(l, 0)));
    }
//@after 1 /st\.store\(CellRef::Sentinel, encode_segment_node\(sentinel_node_size, next_node_offset\)\);/
    proof {
      st.list = Ghost(l.remove(k));
      lemma_remove_bytes(self.av(), s0, st@, k);
      lemma_remove_shape(self.av(), s0, st@, k);
      lemma_remove_order(self.av(), s0, st@, k);
    }
    let ghost s1 = st@;
//@after 1 /let data_end_offset = segment_node\.data_offset \+ size;/
    proof {
      assert(s1.list == l.remove(k));
    }
//@after 1 /_dealloc\(st, data_end_offset, remaining\);/
      proof {
        lemma_first_idx_bounds(s1.list, seg_node(data_end_offset as int, remaining as int).1, false);
        lemma_clear_of_list_insert(s1.list, first_idx(s1.list, seg_node(data_end_offset as int, remaining as int).1, false), seg_node(data_end_offset as int, remaining as int), n.0 as int, data_end_offset as int);
      }
//@before 1 /let mut allocated = Meta::new\(self\.ptr as _, segment_node\.ptr_offset, memory_size\);/
    let ghost s2 = st@;
    proof {
      lemma_in_list_remove(l, k);
      lemma_frame_compose(l, s1.list, s0.bytes, s1.bytes, s2.bytes, data_end_offset as int, data_end_offset as int + remaining as int, k);
      assert(clear_of_list(s2.list, n.0 as int, data_end_offset as int));
    }
//@after 1 /allocated\.clear\(self, st\);/
    proof {
      lemma_zero_written(s2.bytes, n.0 as int + 8, size as int);
      lemma_clear_headers(s2.list, n.0 as int + 8, data_end_offset as int);
      lemma_wf_frame(self.av(), s2, st@, n.0 as int + 8, data_end_offset as int);
      lemma_first_idx_bounds(s1.list, seg_node(data_end_offset as int, remaining as int).1, asc_of(self.freelist));
      if seg_valid(s1, data_end_offset as int, remaining as int) { lemma_seg_node_props(self.av(), s1, data_end_offset as int, remaining as int); }
      assert(kept_in_free(s0, n.0 as int, node_end(n))) by { assert forall|b: int| n.0 as int <= b < node_end(n) implies #[trigger] in_free(s0, b) by { assert(in_node(l[k], b)); } }
      lemma_slow_free_shrinks(s0, st@, k, seg_valid(s1, data_end_offset as int, remaining as int), seg_node(data_end_offset as int, remaining as int),
        first_idx(s1.list, seg_node(data_end_offset as int, remaining as int).1, asc_of(self.freelist)));
      assert(frame_ok(l, s0.bytes, st@.bytes, 0, 0)) by {
        assert forall|b: int| 0 <= b < s0.bytes.len() implies st@.bytes[b] == s0.bytes[b] || 0 <= b < 0 || #[trigger] in_list(l, b) by {
          if n.0 as int + 8 <= b < data_end_offset as int { assert(in_node(l[k], b)); }
        }
      }
    }
//@@end

// ---- discard_freelist ----------------------------------------------------------------------------------------------

//@@fn file=unsync.rs scope="impl Arena {" name=discard_freelist_in xlate=unsync st=mut props=C20,C10
//@attr #[verifier::spinoff_prover]
//@contract @discard_freelist_in
//@loop 1
      invariant
        wf(self.av(), st@), st@.writable,
        st@.bytes.len() == old(st)@.bytes.len(), discard_bytes_ok(old(st)@, st@), st@.allocated == old(st)@.allocated, st@.min_seg == old(st)@.min_seg, st@.lo == old(st)@.lo, st@.writable == old(st)@.writable,
        discarded as int + sum_sizes(st@.list) == sum_sizes(old(st)@.list),
        old(st)@.discarded + sum_sizes(old(st)@.list) <= u32::MAX as int,
        st@.discarded == old(st)@.discarded + discarded as int,
      decreases st@.list.len(),
//@before 1 /let sentinel = st\.load\(CellRef::Sentinel\);/
      let ghost s0 = st@;
      let ghost l = s0.list;
      proof {
        lemma_dec_enc(size_of_cell(l, -1), next_of(l, -1));
        assert(word(s0, cell_of(l, -1)) == enc(size_of_cell(l, -1), next_of(l, -1)));
      }
//@before 1 /return discarded;/
        proof { assert(l =~= Seq::<Node>::empty()); }
//@before 1 /let head = self\.get_segment_node\(st, head_node_offset\);/
      proof {
        assert(l.len() > 0);
        assert(node_ok(self.av(), s0, l[0]));
        lemma_dec_enc(size_of_cell(l, 0), next_of(l, 0));
        assert(word(s0, cell_of(l, 0)) == enc(size_of_cell(l, 0), next_of(l, 0)));
      }
//@after 1 /st\.store\(CellRef::Sentinel, encode_segment_node\(sentinel_node_size, next_node_offset\)\);/
      proof {
        st.list = Ghost(l.remove(0));
        lemma_remove_bytes(self.av(), s0, st@, 0);
        lemma_remove_shape(self.av(), s0, st@, 0);
        lemma_remove_order(self.av(), s0, st@, 0);
        lemma_discard_step(old(st)@, s0, st@);
        assert(sum_sizes(l) == l[0].1 as int + sum_sizes(l.remove(0)));
        lemma_sum_nonneg(l.remove(0));
      }
      let ghost s1 = st@;
//@after 1 /st\.hdr\.discarded \+= segment_node\.data_size;/
      proof { lemma_wf_frame(self.av(), s1, st@, 0, 0); }
//@before 1 /^\s*loop/
    proof { lemma_discard_init(st@); }
//@@end

// ---- top-level allocation -------------------------------------------------------------------------------------------

//@@fn file=unsync.rs scope="impl Arena {" name=alloc_bytes_in xlate=unsync st=mut props=C01,C03,C04,C08,C09,C10,C20
//@attr #[verifier::spinoff_prover]
//@contract @alloc_bytes_in
//@entry
    let ghost s0 = st@;
//@after 1 /unsafe \{ allocated\.clear\(self, st\) \};/
      proof {
        lemma_nodes_below(self.av(), s0);
        lemma_zero_written(s0.bytes, s0.allocated, size as int);
        lemma_wf_frame(self.av(), s0, st@, s0.allocated, s0.allocated + size as int);
      }
//@@end

//@@fn file=unsync.rs scope="impl Arena {" name=alloc_in xlate=unsync st=mut props=C01,C03,C04,C08,C09,C10,C20
//@attr #[verifier::spinoff_prover]
//@contract @alloc_in
//@before 1 /let align_offset = align_offset::<T>\(allocated\);/
    let ghost s0 = st@;
//@after 1 /unsafe \{ allocated\.clear\(self, st\) \};/
      proof {
        lemma_nodes_below(self.av(), s0);
        lemma_wf_frame(self.av(), s0, st@, s0.allocated, self.cap as int);
      }
//@after 2 /allocated\.align_to::<T>\(\);/
          proof {
            lemma_align_up_props(allocated.memory_offset as int, align_of::<T>() as int);
            lemma_clear_narrow(st@.list, allocated.memory_offset as int, allocated.memory_offset as int + 8 + pad_of::<T>(), allocated.memory_offset as int, allocated.ptr_offset as int + allocated.ptr_size as int);
          }
//@after 3 /allocated\.align_to::<T>\(\);/
          proof {
            lemma_align_up_props(allocated.memory_offset as int, align_of::<T>() as int);
            lemma_clear_narrow(st@.list, allocated.memory_offset as int, allocated.memory_offset as int + 8 + pad_of::<T>(), allocated.memory_offset as int, allocated.ptr_offset as int + allocated.ptr_size as int);
          }
//@@end

//@@fn file=unsync.rs scope="impl Arena {" name=alloc_aligned_bytes_in xlate=unsync st=mut props=C01,C03,C04,C09,C10,C20
//@attr #[verifier::spinoff_prover]
//@contract @alloc_aligned_bytes_in
//@before 1 /let aligned_offset = align_offset::<T>\(allocated\);/
    let ghost s0 = st@;
//@after 1 /allocated\.align_bytes_to::<T>\(\);/
      proof {
        lemma_nodes_below(self.av(), s0);
        lemma_wf_frame(self.av(), s0, st@, s0.allocated, self.cap as int);
      }
//@before 1 /bytes\.align_bytes_to::<T>\(\);/
            proof { lemma_align_up_props(bytes.memory_offset as int, align_of::<T>() as int); lemma_size_ge_align::<T>(); }
//@before 2 /bytes\.align_bytes_to::<T>\(\);/
            proof { lemma_align_up_props(bytes.memory_offset as int, align_of::<T>() as int); lemma_size_ge_align::<T>(); }
//@@end

// ---- release, discard, rewind, accessors (trait methods) ---------------------------------------------------------------

//@@fn file=unsync.rs scope="impl Allocator for Arena {" name=dealloc xlate=unsync st=mut props=C01,C10,C13,C20
//@attr #[verifier::spinoff_prover]
//@contract @dealloc
//@before 1 /st\.hdr\.allocated = offset;/
      let ghost s0 = st@;
//@after 1 /st\.hdr\.allocated = offset;/
      proof { lemma_dealloc_top(self.av(), s0, st@, offset as int, size as int); }
//@@end

//@@fn file=unsync.rs scope="impl Allocator for Arena {" name=discard_freelist xlate=unsync st=mut props=C20,C09,C10
//@contract @discard_freelist
//@@end

//@@fn file=unsync.rs scope="impl Allocator for Arena {" name=discarded xlate=unsync st=ref props=C20
//@contract @discarded
//@@end

//@@fn file=unsync.rs scope="impl Allocator for Arena {" name=minimum_segment_size xlate=unsync st=ref props=C10
//@contract @minimum_segment_size
//@@end

//@@fn file=unsync.rs scope="impl Allocator for Arena {" name=set_minimum_segment_size xlate=unsync st=mut props=C10,C09
//@contract @set_minimum_segment_size
//@@end

//@@fn file=unsync.rs scope="impl Allocator for Arena {" name=set_minimum_segment_size rename=set_minimum_segment_size__ro xlate=unsync st=mut props=C09
//@subst? /rt_panic\(\)/ => rt_panic_documented()
//@contract @set_minimum_segment_size__ro
//@@end

//@@fn file=unsync.rs scope="impl Allocator for Arena {" name=rewind xlate=unsync st=mut props=C17
//@contract @rewind
//@@end

//@@fn file=unsync.rs scope="impl Allocator for Arena {" name=clear xlate=unsync st=mut props=C17,C09
//@subst /let memory = &mut \*self\.inner\.as_ptr\(\);\s*memory\.clear\(\);/ => self.memory_clear(st);
//@contract @clear
//@after 1 /self\.memory_clear\(st\);/
      proof {
        st.list = Ghost(Seq::<Node>::empty());
        lemma_dec_enc(SENTINEL_SEGMENT_NODE_SIZE, SENTINEL_SEGMENT_NODE_OFFSET);
        assert(wf(self.av(), st@)) by {
          assert forall|i: int| -1 <= i < st@.list.len() implies word(st@, #[trigger] cell_of(st@.list, i)) == enc(size_of_cell(st@.list, i), next_of(st@.list, i)) by {}
        }
      }
//@@end

} // impl Arena

// ---- truncate (C18) ----------------------------------------------------------------------------------------------------
impl Arena {
//@@fn file=unsync.rs scope="impl Arena {" name=truncate nth=2 xlate=unsync st=mut props=C18
//@subst /self\.inner\.as_mut\(\)/ => MemTok::of(self)
//@subst /memory\.truncate\(/ => memory.truncate(st, 
//@subst? /memory\.as_mut_ptr\(\)/ => memory.as_mut_ptr(st)
//@subst? /memory\.cap\(\)/ => memory.cap(st)
//@contract
  requires
    wf(old(self).av(), old(st)@),
    size as int <= u32::MAX as int - 8, // capacity is a u32 (Memory::truncate stores `size as u32`)
  ensures
    final(self).cap as int == (if size as int >= old(st)@.allocated { size as int } else { old(st)@.allocated }), // [C18]
    final(self).data_offset == old(self).data_offset && final(self).ro == old(self).ro && final(self).freelist == old(self).freelist
      && final(self).max_retries == old(self).max_retries && final(self).reserved == old(self).reserved, // [C18]
    final(st)@.allocated == old(st)@.allocated && final(st)@.discarded == old(st)@.discarded && final(st)@.min_seg == old(st)@.min_seg
      && final(st)@.list == old(st)@.list && final(st)@.sentinel == old(st)@.sentinel, // [C18]
    final(st)@.bytes.subrange(0, old(st)@.allocated) == old(st)@.bytes.subrange(0, old(st)@.allocated), // [C18]
    wf(final(self).av(), final(st)@), // [C18 C10]
//@after 1 /self\.cap = /
      proof { lemma_truncate_wf(old(self).av(), self.av(), old(st)@, st@); }
//@@end

//@@fn file=unsync.rs scope="impl Arena {" name=truncate nth=1 rename=truncate__memmap xlate=unsync st=mut props=C18,C09
//@subst /-> \(r: std::io::Result<\(\)>\)/ => -> (r: Result<(), IoError>)
//@subst /std::io::Error::new\(\s*std::io::ErrorKind::PermissionDenied,\s*"ARENA is read-only",?\s*\)/ => io_read_only_error()
//@subst /self\.inner\.as_mut\(\)/ => MemTok::of(self)
//@subst /memory\.truncate\(/ => memory.truncate_io(st, 
//@subst? /memory\.as_mut_ptr\(\)/ => memory.as_mut_ptr(st)
//@subst? /memory\.cap\(\)/ => memory.cap(st)
//@contract
  requires
    wf(old(self).av(), old(st)@),
    size as int <= u32::MAX as int - 8,
  ensures
    old(self).ro ==> r.is_err() && *final(st) == *old(st) && final(self).cap == old(self).cap, // [C18 C09]
    r.is_err() ==> final(self).cap == old(self).cap, // [C18] (the arena state after an I/O failure inside Memory::truncate is not specified)
    r.is_ok() ==> final(self).cap as int == (if size as int >= old(st)@.allocated { size as int } else { old(st)@.allocated }), // [C18]
    final(self).data_offset == old(self).data_offset && final(self).ro == old(self).ro && final(self).freelist == old(self).freelist
      && final(self).max_retries == old(self).max_retries && final(self).reserved == old(self).reserved, // [C18]
    r.is_ok() ==> final(st)@.allocated == old(st)@.allocated && final(st)@.discarded == old(st)@.discarded && final(st)@.min_seg == old(st)@.min_seg
      && final(st)@.list == old(st)@.list && final(st)@.sentinel == old(st)@.sentinel, // [C18]
    r.is_ok() ==> final(st)@.bytes.subrange(0, old(st)@.allocated) == old(st)@.bytes.subrange(0, old(st)@.allocated), // [C18]
    r.is_ok() ==> wf(final(self).av(), final(st)@), // [C18 C10]
//@after 1 /self\.cap = /
      proof { lemma_truncate_wf(old(self).av(), self.av(), old(st)@, st@); }
//@@end
}

//@@include wrappers_unsync.inc

} // verus!
fn main() {}
