// U_unsync: unsync::Arena allocation / release / free-list functions, translated by the rule table of
// DESIGN.md 3.2 from the current /repo text.  Contracts are injected from this file.
use vstd::prelude::*;
use vstd::layout::*;
use core::mem;
verus! {

global size_of usize == 8; // assumption: 64-bit target

//@@include spec_arith.rs
//@@include spec_mem.rs
//@@include lemmas_list.rs
//@@include spec_ops.rs
//@@include shim_unsync.rs

/// assumption (x86_64 / every 64-bit Rust target): u64 and AtomicU64 are 8 bytes, 8-aligned
#[verifier::external_body]
pub proof fn axiom_u64_layout()
  ensures layout_ok::<u64>(), align_of::<u64>() == 8, size_of::<u64>() == 8
{}

// ---- lib.rs: node word codec, align_offset, Meta -------------------------------------------------------

//@@fn file=lib.rs name=decode_segment_node
//@contract
  ensures r == dec(val),
//@@end

//@@fn file=lib.rs name=encode_segment_node
//@contract
  ensures r == enc(size, next),
//@@end

//@@fn file=lib.rs name=align_offset props=C03,C04
//@contract
  requires
    layout_ok::<T>(),
    current_offset as int + align_of::<T>() as int <= u32::MAX as int, // [C04]
  ensures
    r as int == align_up(current_offset as int, align_of::<T>() as int), // [C03]
    r >= current_offset, // [C03]
    (r as int - current_offset as int) < (align_of::<T>() as int), // [C03]
    r as int % (align_of::<T>() as int) == 0, // [C03]
//@before 1 /\(current_offset \+ alignment - 1\)/
  proof {
    let x = current_offset; let a = alignment;
    assert(a != 0 && a & sub(a,1) == 0 && add(x, sub(a,1)) >= x ==>
       ({ let r = add(x, sub(a, 1)) & !sub(a,1); r >= x && sub(r, x) < a && r % a == 0 })) by (bit_vector);
    lemma_align_up_unique(x as int, a as int, (add(x, sub(a, 1)) & !sub(a,1)) as int);
  }
//@@end

#[derive(Copy, Clone)]
pub struct Meta { pub parent_ptr: *const u8, pub memory_offset: u32, pub memory_size: u32, pub ptr_offset: u32, pub ptr_size: u32 }

impl Meta {
//@@fn file=lib.rs scope="impl Meta {" name=null props=C03
//@contract
  ensures r.memory_offset == 0, r.memory_size == 0, r.ptr_offset == 0, r.ptr_size == 0, r.parent_ptr == parent_ptr, // [C03 C01]
//@@end

//@@fn file=lib.rs scope="impl Meta {" name=new props=C03,C01
//@contract
  ensures r.memory_offset == memory_offset, r.memory_size == memory_size, r.ptr_offset == memory_offset, r.ptr_size == memory_size, r.parent_ptr == parent_ptr, // [C03 C01]
//@@end

//@@fn file=lib.rs scope="impl Meta {" name=clear props=C08,C01 st=mut
//@subst /<A: Allocator>\(&self, st: &mut St, arena: &A\)/ => (&self, arena: &Arena, st: &mut St)
//@subst /let ptr = arena\.raw_mut_ptr\(\)\.add\((.*?)\);\s*core::ptr::write_bytes\(ptr, (.*?), (.*?)\);/ => st.write_bytes(\1, \2, \3);
//@contract
  requires
    old(st)@.writable, // [C09]
    old(st)@.lo <= self.ptr_offset as int, // [C01 C16]
    self.ptr_offset as int + self.ptr_size as int <= old(st)@.bytes.len(), // [C01 C04]
  ensures
    final(st).hdr == old(st).hdr, final(st).list == old(st).list,
    final(st)@ == (SV { bytes: splice(old(st)@.bytes, self.ptr_offset as int, zeros(self.ptr_size as int)), ..old(st)@ }), // [C08]
//@after 1 /st\.write_bytes/
    proof { assert(Seq::new(self.ptr_size as usize as nat, |i: int| 0u8) =~= zeros(self.ptr_size as int)); }
//@@end

//@@fn file=lib.rs scope="impl Meta {" name=align_to props=C03
//@contract
  requires
    layout_ok::<T>(), size_of::<T>() <= u32::MAX as usize,
    old(self).memory_offset as int + align_of::<T>() as int <= u32::MAX as int, // [C04]
  ensures
    final(self).ptr_offset as int == align_up(old(self).memory_offset as int, align_of::<T>() as int), // [C03]
    final(self).ptr_size as int == size_of::<T>() as int, // [C03]
    final(self).memory_offset == old(self).memory_offset, final(self).memory_size == old(self).memory_size, // [C01]
    final(self).parent_ptr == old(self).parent_ptr,
//@@end

//@@fn file=lib.rs scope="impl Meta {" name=align_bytes_to props=C03
//@contract
  requires
    layout_ok::<T>(),
    old(self).memory_offset as int + align_of::<T>() as int <= u32::MAX as int, // [C04]
    old(self).memory_offset as int + old(self).memory_size as int <= u32::MAX as int, // [C04]
    align_up(old(self).memory_offset as int, align_of::<T>() as int) <= old(self).memory_offset as int + old(self).memory_size as int, // [C04]
  ensures
    final(self).ptr_offset as int == align_up(old(self).memory_offset as int, align_of::<T>() as int), // [C03]
    final(self).ptr_offset as int + final(self).ptr_size as int == old(self).memory_offset as int + old(self).memory_size as int, // [C03 C01]
    final(self).memory_offset == old(self).memory_offset, final(self).memory_size == old(self).memory_size, // [C01]
    final(self).parent_ptr == old(self).parent_ptr,
//@@end
}

// ---- unsync.rs: Segment ------------------------------------------------------------------------------------

#[derive(Copy, Clone)]
pub struct Segment { pub ptr: *mut u8, pub ptr_offset: u32, pub data_offset: u32, pub data_size: u32 }

impl Segment {
//@@fn file=unsync.rs scope="impl Segment {" name=from_offset props=C04
//@contract
  requires offset as int + 8 <= u32::MAX as int, // [C04]
  ensures r.ptr_offset == offset, r.data_offset == offset + 8, r.data_size == data_size, r.ptr == arena.ptr,
//@@end

//@@fn file=unsync.rs scope="impl Segment {" name=update_next_node xlate=unsync st=mut props=C10,C01
//@contract
  requires
    old(st)@.writable, // [C09]
    old(self).ptr_offset as int % 8 == 0 && old(st)@.lo <= old(self).ptr_offset as int && old(self).ptr_offset as int + 8 <= old(st)@.bytes.len(), // [C01 C04]
  ensures
    *final(self) == *old(self),
    final(st).hdr == old(st).hdr, final(st).list == old(st).list,
    final(st)@ == (SV { bytes: splice(old(st)@.bytes, old(self).ptr_offset as int, b64(enc(old(self).data_size, next))), ..old(st)@ }), // [C10]
//@@end
}

impl Arena {
// ---- small helpers ---------------------------------------------------------------------------------------------

//@@fn file=unsync.rs scope="impl Arena {" name=get_segment_node xlate=unsync st=ref props=C01,C04
//@subst /unsafe \{\s*let ptr = self\.ptr\.add\(offset as usize\);\s*&\*\(ptr as \*const _\)\s*\}/ => CellRef::Node(offset)
//@contract
  requires
    offset as int % 8 == 0, // [C01 C10]
    st@.lo <= offset as int, // [C01 C16]
    offset as int + 8 <= st@.bytes.len(), // [C01 C04]
  ensures r == CellRef::Node(offset),
//@@end

//@@fn file=unsync.rs scope="impl Arena {" name=pad props=C03,C04
//@contract
  requires layout_ok::<T>(), size_of::<T>() as int + align_of::<T>() as int <= usize::MAX as int, // [C04]
  ensures r as int == size_of::<T>() as int + align_of::<T>() as int - 1, // [C03]
//@@end

//@@fn file=unsync.rs scope="impl Allocator for Arena {" name=increase_discarded xlate=unsync st=mut props=C20,C09
//@contract
  requires
    !self.ro && old(st)@.writable, // [C09 C04]
    old(st)@.discarded + size as int <= u32::MAX as int, // [C20]
  ensures
    final(st)@ == (SV { discarded: old(st)@.discarded + size as int, ..old(st)@ }), // [C20]
//@@end

//@@fn file=unsync.rs scope="impl Allocator for Arena {" name=increase_discarded rename=increase_discarded__ro xlate=unsync st=mut props=C09
//@subst /rt_panic\(\)/ => rt_panic_documented()
//@contract
  requires self.ro && !old(st)@.writable,
  ensures false, // [C09]
//@@end

//@@fn file=unsync.rs scope="impl Allocator for Arena {" name=allocated xlate=unsync st=ref props=C15,C16
//@contract
  ensures r as int == st@.allocated, // [C15 C16 C11]
//@@end

//@@fn file=unsync.rs scope="impl Allocator for Arena {" name=remaining xlate=unsync st=ref props=C16
//@contract
  requires st@.allocated <= self.cap as int,
  ensures r as int == self.cap as int - st@.allocated, // [C16 C11]
//@@end

//@@fn file=unsync.rs scope="impl Arena {" name=validate_segment xlate=unsync st=ref props=C10
//@contract
  requires
    offset != 0 && size != 0 ==> offset as int + 8 <= u32::MAX as int, // [C04]
  ensures
    r == seg_valid(st@, offset as int, size as int), // [C10 C20]
//@before 1 /let aligned_offset = align_offset::<u64>/
    proof { axiom_u64_layout(); }
//@@end

//@@fn file=unsync.rs scope="impl Arena {" name=try_new_segment xlate=unsync st=mut props=C10,C20
//@contract
  requires
    offset != 0 && size != 0 ==> offset as int + 8 <= u32::MAX as int, // [C04]
    offset != 0 && size != 0 ==> offset as int + size as int <= u32::MAX as int, // [C04]
    offset != 0 && size != 0 ==> old(st)@.discarded + (if seg_valid(old(st)@, offset as int, size as int) { 0 } else { size as int }) <= u32::MAX as int, // [C20]
    !self.ro && old(st)@.writable, // [C09]
  ensures
    r.is_some() == seg_valid(old(st)@, offset as int, size as int), // [C10 C20]
    r matches Some(seg) ==> final(st)@ == old(st)@ && seg_node(offset as int, size as int) == (seg.ptr_offset, seg.data_size)
        && seg.data_offset == seg.ptr_offset + 8 && seg.ptr == self.ptr, // [C10 C01]
    r.is_none() ==> final(st)@ == (SV { discarded: old(st)@.discarded + (if offset == 0 || size == 0 { 0 } else { size as int }), ..old(st)@ }), // [C20]
//@before 1 /let aligned_offset = align_offset::<u64>/
    proof { axiom_u64_layout(); }
//@@end

// ---- list traversal -----------------------------------------------------------------------------------------

//@@fn file=unsync.rs scope="impl Arena {" name=find_position xlate=unsync st=ref props=C10
//@contract
  requires
    wf_shape(self.av(), st@),
    forall|a: u32, b: u32| check.requires((a, b)),
  ensures
    forall|asc: bool| #[trigger] tr(asc) && cmp_is(check, asc) ==> fp_post(st@, val, asc, r), // [C10]
//@before 1 /^\s*loop/
    let ghost mut idx: int = -1;
    proof { lemma_dec_enc(size_of_cell(st@.list, -1), next_of(st@.list, -1)); }
//@loop 1
      invariant
        wf_shape(self.av(), st@),
        forall|a: u32, b: u32| check.requires((a, b)),
        -1 <= idx < st@.list.len(),
        current == cell_of(st@.list, idx),
        *current_node == word(st@, current),
        current_node_size == size_of_cell(st@.list, idx),
        next_offset == next_of(st@.list, idx),
        forall|j: int| 0 <= j <= idx ==> check.ensures((val, #[trigger] st@.list[j].1), false),
      decreases st@.list.len() - idx,
//@before 1 /let next = self\.get_segment_node/
      proof { assert(node_ok(self.av(), st@, st@.list[idx + 1])); }
//@after 1 /let \(next_node_size, next_next_offset\)/
      proof {
        assert(next == cell_of(st@.list, idx + 1));
        lemma_dec_enc(size_of_cell(st@.list, idx + 1), next_of(st@.list, idx + 1));
      }
//@before 1 /current = next;/
      proof { idx = idx + 1; }
//@before 1 /return \(\*current_node, current\);/
        proof { assert forall|asc: bool| #[trigger] tr(asc) && cmp_is(check, asc) implies fp_post(st@, val, asc, (*current_node, current)) by { lemma_first_idx(st@.list, val, asc, idx + 1); } }
//@before 2 /return \(\*current_node, current\);/
        proof { assert forall|asc: bool| #[trigger] tr(asc) && cmp_is(check, asc) implies fp_post(st@, val, asc, (*current_node, current)) by { lemma_first_idx(st@.list, val, asc, idx + 1); } }
//@before 3 /return \(\*current_node, current\);/
        proof { assert forall|asc: bool| #[trigger] tr(asc) && cmp_is(check, asc) implies fp_post(st@, val, asc, (*current_node, current)) by { lemma_first_idx(st@.list, val, asc, idx + 1); } }
//@before 4 /return \(\*current_node, current\);/
        proof { assert forall|asc: bool| #[trigger] tr(asc) && cmp_is(check, asc) implies fp_post(st@, val, asc, (*current_node, current)) by { lemma_first_idx(st@.list, val, asc, idx + 1); } }
//@@end

//@@fn file=unsync.rs scope="impl Arena {" name=find_prev_and_next xlate=unsync st=ref props=C10
//@contract
  requires
    wf_shape(self.av(), st@),
    forall|a: u32, b: u32| check.requires((a, b)),
  ensures
    forall|asc: bool| #[trigger] tr(asc) && cmp_is(check, asc) ==> fpn_post(st@, val, asc, r), // [C10]
//@before 1 /^\s*loop/
    let ghost mut idx: int = -1;
    proof { lemma_dec_enc(size_of_cell(st@.list, -1), next_of(st@.list, -1)); }
//@loop 1
      invariant
        wf_shape(self.av(), st@),
        forall|a: u32, b: u32| check.requires((a, b)),
        -1 <= idx < st@.list.len(),
        current == cell_of(st@.list, idx),
        *current_node == word(st@, current),
        current_node_size == size_of_cell(st@.list, idx),
        next_offset == next_of(st@.list, idx),
        forall|j: int| 0 <= j <= idx ==> check.ensures((val, #[trigger] st@.list[j].1), false),
      decreases st@.list.len() - idx,
//@before 1 /let next = self\.get_segment_node/
      proof { assert(node_ok(self.av(), st@, st@.list[idx + 1])); }
//@after 1 /let \(next_node_size, next_next_offset\)/
      proof {
        assert(next == cell_of(st@.list, idx + 1));
        lemma_dec_enc(size_of_cell(st@.list, idx + 1), next_of(st@.list, idx + 1));
      }
//@before 1 /return Some\(\(\(\*current_node, current\)/
        proof { assert forall|asc: bool| #[trigger] tr(asc) && cmp_is(check, asc) implies fpn_post(st@, val, asc, Some(((*current_node, current), (*next_node, next)))) by { lemma_first_idx(st@.list, val, asc, idx + 1); } }
//@before 1 /current = self\.get_segment_node\(st, next_offset\);/
      proof { idx = idx + 1; }
//@before 1 /return None;/
        proof { assert forall|asc: bool| #[trigger] tr(asc) && cmp_is(check, asc) implies fpn_post(st@, val, asc, None) by { lemma_first_idx(st@.list, val, asc, idx + 1); } }
//@before 2 /return None;/
        proof { assert forall|asc: bool| #[trigger] tr(asc) && cmp_is(check, asc) implies fpn_post(st@, val, asc, None) by { lemma_first_idx(st@.list, val, asc, idx + 1); } }
//@before 3 /return None;/
        proof { assert forall|asc: bool| #[trigger] tr(asc) && cmp_is(check, asc) implies fpn_post(st@, val, asc, None) by { lemma_first_idx(st@.list, val, asc, idx + 1); } }
//@@end

// ---- release into the free list ---------------------------------------------------------------------------

//@@fn file=unsync.rs scope="impl Arena {" name=pessimistic_dealloc xlate=unsync st=mut props=C10,C01,C20
//@closure
  b == (val <= next_node_size)
//@contract
  requires
    wf(self.av(), old(st)@),
    self.freelist == Freelist::Pessimistic,
    !self.ro && old(st)@.writable, // [C09]
    extent_ok(self.av(), old(st)@, offset as int, size as int), // [C01 C10]
    old(st)@.discarded + (if seg_valid(old(st)@, offset as int, size as int) { 8 } else { size as int }) <= u32::MAX as int, // [C20]
  ensures
    wf_shape(self.av(), final(st)@), // [C01 C10]
    wf_order(self.av(), final(st)@), // [C10]
    r == seg_valid(old(st)@, offset as int, size as int), // [C10 C20]
    r ==> final(st)@.list == list_insert(old(st)@.list, seg_node(offset as int, size as int), true), // [C10]
    r ==> final(st)@.discarded == old(st)@.discarded + 8, // [C20]
    !r ==> final(st)@ == (SV { discarded: old(st)@.discarded + (if offset == 0 || size == 0 { 0 } else { size as int }), ..old(st)@ }), // [C20]
    frame_ok(old(st)@.list, old(st)@.bytes, final(st)@.bytes, offset as int, offset as int + size as int), // [C01]
    free_grows(old(st)@, final(st)@, offset as int, offset as int + size as int), // [C01]
    final(st)@.allocated == old(st)@.allocated, final(st)@.min_seg == old(st)@.min_seg, // [C01]
    final(st)@.writable == old(st)@.writable, final(st)@.lo == old(st)@.lo,
//@before 1 /let Some\(mut segment_node\) = self\.try_new_segment/
    proof { lemma_seg_node_bounds(offset as int, size as int); lemma_seg_valid_extent(self.av(), old(st)@, offset as int, size as int); }
//@before 1 /return false;/
      proof { lemma_wf_frame(self.av(), old(st)@, st@, 0, 0); }
//@after 1 /let Some\(mut segment_node\) = self\.try_new_segment/
    let ghost s0 = st@;
    let ghost n: Node = (segment_node.ptr_offset, segment_node.data_size);
    proof {
      lemma_seg_node_props(self.av(), s0, offset as int, size as int);
    }
//@after 1 /decode_segment_node\(current_node_size_and_next_node_offset\);/
    let ghost i: int = first_idx(s0.list, n.1, true) - 1;
    proof {
      lemma_first_idx_props_from(s0.list, n.1, true, 0);
      assert(tr(true));
      lemma_dec_enc(size_of_cell(s0.list, i), next_of(s0.list, i));
      if i >= 0 { assert(node_ok(self.av(), s0, s0.list[i])); }
    }
//@after 1 /segment_node\.update_next_node\(st, next_node_offset\);/
    let ghost s1 = st@;
//@after 1 /st\.store\(current, encode_segment_node\(node_size, segment_node\.ptr_offset\)\);/
    proof {
      st.list = Ghost(s0.list.insert(i + 1, n));
      lemma_insert_bytes(self.av(), s0, s1, st@, i, n);
      lemma_insert_shape(self.av(), s0, st@, i, n);
      lemma_insert_order(self.av(), s0, st@, i, n, true);
      lemma_frame_widen(s0.list, s0.bytes, st@.bytes, n.0 as int, n.0 as int + 8, offset as int, offset as int + size as int);
      lemma_free_grows_insert(s0, st@, i + 1, n, offset as int, offset as int + size as int);
    }
    let ghost s2 = st@;
//@after 1 /self\.increase_discarded\(st, segment_node\.data_offset - segment_node\.ptr_offset\);/
    proof { lemma_wf_frame(self.av(), s2, st@, 0, 0); }
//@@end

//@@fn file=unsync.rs scope="impl Arena {" name=optimistic_dealloc xlate=unsync st=mut props=C10,C01,C20
//@closure
  b == (val >= next_node_size)
//@contract
  requires
    wf(self.av(), old(st)@),
    self.freelist == Freelist::Optimistic,
    !self.ro && old(st)@.writable, // [C09]
    extent_ok(self.av(), old(st)@, offset as int, size as int), // [C01 C10]
    old(st)@.discarded + (if seg_valid(old(st)@, offset as int, size as int) { 8 } else { size as int }) <= u32::MAX as int, // [C20]
  ensures
    wf_shape(self.av(), final(st)@), // [C01 C10]
    wf_order(self.av(), final(st)@), // [C10]
    r == seg_valid(old(st)@, offset as int, size as int), // [C10 C20]
    r ==> final(st)@.list == list_insert(old(st)@.list, seg_node(offset as int, size as int), false), // [C10]
    r ==> final(st)@.discarded == old(st)@.discarded + 8, // [C20]
    !r ==> final(st)@ == (SV { discarded: old(st)@.discarded + (if offset == 0 || size == 0 { 0 } else { size as int }), ..old(st)@ }), // [C20]
    frame_ok(old(st)@.list, old(st)@.bytes, final(st)@.bytes, offset as int, offset as int + size as int), // [C01]
    free_grows(old(st)@, final(st)@, offset as int, offset as int + size as int), // [C01]
    final(st)@.allocated == old(st)@.allocated, final(st)@.min_seg == old(st)@.min_seg, // [C01]
    final(st)@.writable == old(st)@.writable, final(st)@.lo == old(st)@.lo,
//@before 1 /let Some\(mut segment_node\) = self\.try_new_segment/
    proof { lemma_seg_node_bounds(offset as int, size as int); lemma_seg_valid_extent(self.av(), old(st)@, offset as int, size as int); }
//@before 1 /return false;/
      proof { lemma_wf_frame(self.av(), old(st)@, st@, 0, 0); }
//@after 1 /let Some\(mut segment_node\) = self\.try_new_segment/
    let ghost s0 = st@;
    let ghost n: Node = (segment_node.ptr_offset, segment_node.data_size);
    proof {
      lemma_seg_node_props(self.av(), s0, offset as int, size as int);
    }
//@loop 1
      invariant
        st@ == s0,
        wf(self.av(), s0), self.freelist == Freelist::Optimistic, s0.writable,
        node_ok(self.av(), s0, n), clear_of_list(s0.list, n.0 as int, node_end(n)),
        n == (segment_node.ptr_offset, segment_node.data_size), segment_node.data_offset == segment_node.ptr_offset + 8,
        n == seg_node(offset as int, size as int), seg_valid(old(st)@, offset as int, size as int),
        offset as int <= n.0 as int, node_end(n) == offset as int + size as int,
        s0 == old(st)@,
        s0.discarded + 8 <= u32::MAX as int,
      decreases 0int,
//@after 1 /decode_segment_node\(current_node_size_and_next_node_offset\);/
    let ghost i: int = first_idx(s0.list, n.1, false) - 1;
    proof {
      lemma_first_idx_props_from(s0.list, n.1, false, 0);
      assert(tr(false));
      lemma_dec_enc(size_of_cell(s0.list, i), next_of(s0.list, i));
      if i >= 0 { assert(node_ok(self.av(), s0, s0.list[i])); }
    }
//@after 1 /segment_node\.update_next_node\(st, next_node_offset\);/
    let ghost s1 = st@;
//@after 1 /st\.store\(current, encode_segment_node\(node_size, segment_node\.ptr_offset\)\);/
    proof {
      st.list = Ghost(s0.list.insert(i + 1, n));
      lemma_insert_bytes(self.av(), s0, s1, st@, i, n);
      lemma_insert_shape(self.av(), s0, st@, i, n);
      lemma_insert_order(self.av(), s0, st@, i, n, false);
      lemma_frame_widen(s0.list, s0.bytes, st@.bytes, n.0 as int, n.0 as int + 8, offset as int, offset as int + size as int);
      lemma_free_grows_insert(s0, st@, i + 1, n, offset as int, offset as int + size as int);
    }
    let ghost s2 = st@;
//@after 1 /self\.increase_discarded\(st, segment_node\.data_offset - segment_node\.ptr_offset\);/
    proof { lemma_wf_frame(self.av(), s2, st@, 0, 0); }
//@@end

// ---- allocation from the free list (slow paths) -----------------------------------------------------------------

//@@fn file=unsync.rs scope="impl Arena {" name=alloc_slow_path_pessimistic xlate=unsync st=mut props=C01,C03,C04,C08,C09,C10,C20
//@closure
  b == (val <= next_node_size)
//@contract
  requires
    wf(self.av(), old(st)@),
    self.freelist == Freelist::Pessimistic,
    old(st)@.discarded + 8 <= u32::MAX as int, // [C20]
  ensures
    self.ro ==> r matches Err(Error::ReadOnly), // [C09 C04]
    r.is_err() ==> final(st)@ == old(st)@, // [C04 C09]
    !self.ro ==> (r.is_err() <==> pick(old(st)@.list, size, self.freelist) == old(st)@.list.len()), // [C10 C04]
    r matches Err(e) ==> (e matches Error::ReadOnly) || (e matches Error::InsufficientSpace { .. }), // [C04]
    r matches Ok(m) ==> slow_ok(self.av(), old(st)@, final(st)@, size, pick(old(st)@.list, size, self.freelist),
          m.memory_offset as int, m.memory_size as int, m.ptr_offset as int, m.ptr_size as int), // [C10 C03 C20 C01]
    r matches Ok(m) ==> all_zero(final(st)@.bytes, m.ptr_offset as int, m.ptr_offset as int + m.ptr_size as int), // [C08]
    r matches Ok(m) ==> meta_ok(self.av(), final(st)@, m.memory_offset as int, m.memory_size as int, m.ptr_offset as int, m.ptr_size as int), // [C01]
    free_shrinks(old(st)@, final(st)@), // [C01]
    r matches Ok(m) ==> m.parent_ptr == self.ptr as *const u8,
    frame_ok(old(st)@.list, old(st)@.bytes, final(st)@.bytes, 0, 0), // [C01]
    wf_shape(self.av(), final(st)@), // [C01 C10]
    wf_order(self.av(), final(st)@), // [C10]
//@before 1 /let Some\(\(\(prev_node_val, prev_node\), \(next_node_val, _\)\)\) =/
    let ghost s0 = st@;
    let ghost l = s0.list;
    let ghost k = first_idx(l, size, true);
    proof { lemma_first_idx_bounds(l, size, true); }
//@before 1 /return Err\(Error::InsufficientSpace/
      proof { assert(tr(true)); }
//@before 1 /let \(prev_node_size, next_node_offset\) = decode_segment_node\(prev_node_val\);/
    proof { assert(tr(true)); }
    let ghost n = l[k];
    proof {
      lemma_first_idx_props_from(l, size, true, 0);
      lemma_dec_enc(size_of_cell(l, k - 1), next_of(l, k - 1));
      lemma_dec_enc(size_of_cell(l, k), next_of(l, k));
      assert(node_ok(self.av(), s0, n));
      if k >= 1 { assert(node_ok(self.av(), s0, l[k - 1])); }
    }
//@after 1 /st\.store\(prev_node, updated_prev\);/
    proof {
      st.list = Ghost(l.remove(k));
      lemma_remove_bytes(self.av(), s0, st@, k);
      lemma_remove_shape(self.av(), s0, st@, k);
      lemma_remove_order(self.av(), s0, st@, k);
    }
    let ghost s1 = st@;
//@after 1 /let data_end_offset = segment_node\.data_offset \+ size;/
    proof {
      assert(s1.list == l.remove(k));
    }
//@after 1 /self\.pessimistic_dealloc\(st, data_end_offset, remaining\);/
      proof {
        lemma_first_idx_bounds(s1.list, seg_node(data_end_offset as int, remaining as int).1, true);
        lemma_clear_of_list_insert(s1.list, first_idx(s1.list, seg_node(data_end_offset as int, remaining as int).1, true), seg_node(data_end_offset as int, remaining as int), n.0 as int, data_end_offset as int);
      }
//@before 1 /let mut allocated = Meta::new\(self\.ptr as _, segment_node\.ptr_offset, memory_size\);/
    let ghost s2 = st@;
    proof {
      lemma_in_list_remove(l, k);
      lemma_frame_compose(l, s1.list, s0.bytes, s1.bytes, s2.bytes, data_end_offset as int, data_end_offset as int + remaining as int, k);
      assert(clear_of_list(s2.list, n.0 as int, data_end_offset as int));
    }
//@after 1 /allocated\.clear\(self, st\);/
    proof {
      lemma_zero_written(s2.bytes, n.0 as int + 8, size as int);
      lemma_clear_headers(s2.list, n.0 as int + 8, data_end_offset as int);
      lemma_wf_frame(self.av(), s2, st@, n.0 as int + 8, data_end_offset as int);
      lemma_first_idx_bounds(s1.list, seg_node(data_end_offset as int, remaining as int).1, asc_of(self.freelist));
      if seg_valid(s1, data_end_offset as int, remaining as int) { lemma_seg_node_props(self.av(), s1, data_end_offset as int, remaining as int); }
      lemma_slow_free_shrinks(s0, st@, k, seg_valid(s1, data_end_offset as int, remaining as int), seg_node(data_end_offset as int, remaining as int),
        first_idx(s1.list, seg_node(data_end_offset as int, remaining as int).1, asc_of(self.freelist)));
      assert(frame_ok(l, s0.bytes, st@.bytes, 0, 0)) by {
        assert forall|b: int| 0 <= b < s0.bytes.len() implies st@.bytes[b] == s0.bytes[b] || 0 <= b < 0 || #[trigger] in_list(l, b) by {
          if n.0 as int + 8 <= b < data_end_offset as int { assert(in_node(l[k], b)); }
        }
      }
    }
//@@end

//@@fn file=unsync.rs scope="impl Arena {" name=alloc_slow_path_optimistic xlate=unsync st=mut props=C01,C03,C04,C08,C09,C10,C20
//@contract
  requires
    wf(self.av(), old(st)@),
    self.freelist == Freelist::Optimistic,
    old(st)@.discarded + 8 <= u32::MAX as int, // [C20]
  ensures
    self.ro ==> r matches Err(Error::ReadOnly), // [C09 C04]
    r.is_err() ==> final(st)@ == old(st)@, // [C04 C09]
    !self.ro ==> (r.is_err() <==> pick(old(st)@.list, size, self.freelist) == old(st)@.list.len()), // [C10 C04]
    r matches Err(e) ==> (e matches Error::ReadOnly) || (e matches Error::InsufficientSpace { .. }), // [C04]
    r matches Ok(m) ==> slow_ok(self.av(), old(st)@, final(st)@, size, pick(old(st)@.list, size, self.freelist),
          m.memory_offset as int, m.memory_size as int, m.ptr_offset as int, m.ptr_size as int), // [C10 C03 C20 C01]
    r matches Ok(m) ==> all_zero(final(st)@.bytes, m.ptr_offset as int, m.ptr_offset as int + m.ptr_size as int), // [C08]
    r matches Ok(m) ==> meta_ok(self.av(), final(st)@, m.memory_offset as int, m.memory_size as int, m.ptr_offset as int, m.ptr_size as int), // [C01]
    free_shrinks(old(st)@, final(st)@), // [C01]
    r matches Ok(m) ==> m.parent_ptr == self.ptr as *const u8,
    frame_ok(old(st)@.list, old(st)@.bytes, final(st)@.bytes, 0, 0), // [C01]
    wf_shape(self.av(), final(st)@), // [C01 C10]
    wf_order(self.av(), final(st)@), // [C10]
//@before 1 /let sentinel = st\.load\(CellRef::Sentinel\);/
    let ghost s0 = st@;
    let ghost l = s0.list;
    let ghost k: int = 0;
    proof {
      lemma_dec_enc(size_of_cell(l, -1), next_of(l, -1));
      assert(word(s0, cell_of(l, -1)) == enc(size_of_cell(l, -1), next_of(l, -1)));
    }
//@before 1 /let head = self\.get_segment_node\(st, head_node_offset\);/
    let ghost n = l[0];
    proof {
      assert(l.len() > 0);
      assert(node_ok(self.av(), s0, n));
      lemma_dec_enc(size_of_cell(l, 0), next_of(l, 0));
      assert(word(s0, cell_of(l, 0)) == enc(size_of_cell(l, 0), next_of(l, 0)));
    }
//@after 1 /st\.store\(CellRef::Sentinel, encode_segment_node\(sentinel_node_size, next_node_offset\)\);/
    proof {
      st.list = Ghost(l.remove(k));
      lemma_remove_bytes(self.av(), s0, st@, k);
      lemma_remove_shape(self.av(), s0, st@, k);
      lemma_remove_order(self.av(), s0, st@, k);
    }
    let ghost s1 = st@;
//@after 1 /let data_end_offset = segment_node\.data_offset \+ size;/
    proof {
      assert(s1.list == l.remove(k));
    }
//@after 1 /self\.optimistic_dealloc\(st, data_end_offset, remaining\);/
      proof {
        lemma_first_idx_bounds(s1.list, seg_node(data_end_offset as int, remaining as int).1, false);
        lemma_clear_of_list_insert(s1.list, first_idx(s1.list, seg_node(data_end_offset as int, remaining as int).1, false), seg_node(data_end_offset as int, remaining as int), n.0 as int, data_end_offset as int);
      }
//@before 1 /let mut allocated = Meta::new\(self\.ptr as _, segment_node\.ptr_offset, memory_size\);/
    let ghost s2 = st@;
    proof {
      lemma_in_list_remove(l, k);
      lemma_frame_compose(l, s1.list, s0.bytes, s1.bytes, s2.bytes, data_end_offset as int, data_end_offset as int + remaining as int, k);
      assert(clear_of_list(s2.list, n.0 as int, data_end_offset as int));
    }
//@after 1 /allocated\.clear\(self, st\);/
    proof {
      lemma_zero_written(s2.bytes, n.0 as int + 8, size as int);
      lemma_clear_headers(s2.list, n.0 as int + 8, data_end_offset as int);
      lemma_wf_frame(self.av(), s2, st@, n.0 as int + 8, data_end_offset as int);
      lemma_first_idx_bounds(s1.list, seg_node(data_end_offset as int, remaining as int).1, asc_of(self.freelist));
      if seg_valid(s1, data_end_offset as int, remaining as int) { lemma_seg_node_props(self.av(), s1, data_end_offset as int, remaining as int); }
      lemma_slow_free_shrinks(s0, st@, k, seg_valid(s1, data_end_offset as int, remaining as int), seg_node(data_end_offset as int, remaining as int),
        first_idx(s1.list, seg_node(data_end_offset as int, remaining as int).1, asc_of(self.freelist)));
      assert(frame_ok(l, s0.bytes, st@.bytes, 0, 0)) by {
        assert forall|b: int| 0 <= b < s0.bytes.len() implies st@.bytes[b] == s0.bytes[b] || 0 <= b < 0 || #[trigger] in_list(l, b) by {
          if n.0 as int + 8 <= b < data_end_offset as int { assert(in_node(l[k], b)); }
        }
      }
    }
//@@end

// ---- discard_freelist ----------------------------------------------------------------------------------------------

//@@fn file=unsync.rs scope="impl Arena {" name=discard_freelist_in xlate=unsync st=mut props=C20,C10
//@contract
  requires
    wf(self.av(), old(st)@),
    old(st)@.writable, // [C09]
    old(st)@.discarded + sum_sizes(old(st)@.list) <= u32::MAX as int, // [C20]
  ensures
    r as int == sum_sizes(old(st)@.list), // [C20]
    final(st)@ == (SV { list: Seq::<Node>::empty(), discarded: old(st)@.discarded + sum_sizes(old(st)@.list),
                        sentinel: enc(SENTINEL_SEGMENT_NODE_SIZE, SENTINEL_SEGMENT_NODE_OFFSET), ..old(st)@ }), // [C20 C10]
    wf(self.av(), final(st)@), // [C10]
//@loop 1
      invariant
        wf(self.av(), st@), st@.writable,
        st@.bytes == old(st)@.bytes, st@.allocated == old(st)@.allocated, st@.min_seg == old(st)@.min_seg, st@.lo == old(st)@.lo, st@.writable == old(st)@.writable,
        discarded as int + sum_sizes(st@.list) == sum_sizes(old(st)@.list),
        old(st)@.discarded + sum_sizes(old(st)@.list) <= u32::MAX as int,
        st@.discarded == old(st)@.discarded + discarded as int,
      decreases st@.list.len(),
//@before 1 /let sentinel = st\.load\(CellRef::Sentinel\);/
      let ghost s0 = st@;
      let ghost l = s0.list;
      proof {
        lemma_dec_enc(size_of_cell(l, -1), next_of(l, -1));
        assert(word(s0, cell_of(l, -1)) == enc(size_of_cell(l, -1), next_of(l, -1)));
      }
//@before 1 /return discarded;/
        proof { assert(l =~= Seq::<Node>::empty()); assert(st@ =~= (SV { list: Seq::<Node>::empty(), discarded: old(st)@.discarded + sum_sizes(old(st)@.list), sentinel: enc(SENTINEL_SEGMENT_NODE_SIZE, SENTINEL_SEGMENT_NODE_OFFSET), ..old(st)@ })); }
//@before 1 /let head = self\.get_segment_node\(st, head_node_offset\);/
      proof {
        assert(l.len() > 0);
        assert(node_ok(self.av(), s0, l[0]));
        lemma_dec_enc(size_of_cell(l, 0), next_of(l, 0));
        assert(word(s0, cell_of(l, 0)) == enc(size_of_cell(l, 0), next_of(l, 0)));
      }
//@after 1 /st\.store\(CellRef::Sentinel, encode_segment_node\(sentinel_node_size, next_node_offset\)\);/
      proof {
        st.list = Ghost(l.remove(0));
        lemma_remove_bytes(self.av(), s0, st@, 0);
        lemma_remove_shape(self.av(), s0, st@, 0);
        lemma_remove_order(self.av(), s0, st@, 0);
        assert(sum_sizes(l) == l[0].1 as int + sum_sizes(l.remove(0)));
        lemma_sum_nonneg(l.remove(0));
      }
      let ghost s1 = st@;
//@after 1 /st\.hdr\.discarded \+= segment_node\.data_size;/
      proof { lemma_wf_frame(self.av(), s1, st@, 0, 0); }
//@@end

// ---- top-level allocation -------------------------------------------------------------------------------------------

//@@fn file=unsync.rs scope="impl Arena {" name=alloc_bytes_in xlate=unsync st=mut props=C01,C03,C04,C08,C09,C10,C20
//@contract
  requires
    wf(self.av(), old(st)@),
    old(st)@.discarded + 8 <= u32::MAX as int, // [C20]
  ensures
    !self.ro && size == 0 ==> (r matches Ok(None)) && final(st)@ == old(st)@, // [C03]
    !self.ro && size > 0 ==> (r.is_err() <==> alloc_fails(self.av(), old(st)@, size as int, size as int)), // [C10]
    r matches Ok(None) ==> size == 0, // [C03]
    r matches Ok(Some(m)) ==> alloc_bytes_ok(self.av(), old(st)@, final(st)@, size, m.memory_offset as int, m.memory_size as int, m.ptr_offset as int, m.ptr_size as int), // [C03 C10 C20]
    r matches Ok(Some(m)) ==> m.ptr_size == size, // [C03]
    r matches Ok(Some(m)) ==> all_zero(final(st)@.bytes, m.ptr_offset as int, m.ptr_offset as int + m.ptr_size as int), // [C08]
    self.ro ==> r matches Err(Error::ReadOnly), // [C09 C04]
    r.is_err() ==> final(st)@ == old(st)@, // [C04 C09]
    r matches Err(e) ==> (e matches Error::ReadOnly) || (e matches Error::InsufficientSpace { .. }), // [C04]
    r matches Ok(Some(m)) ==> meta_ok(self.av(), final(st)@, m.memory_offset as int, m.memory_size as int, m.ptr_offset as int, m.ptr_size as int), // [C01]
    r matches Ok(Some(m)) ==> m.parent_ptr == self.ptr as *const u8,
    free_shrinks(old(st)@, final(st)@), // [C01]
    frame_ok(old(st)@.list, old(st)@.bytes, final(st)@.bytes, old(st)@.allocated, self.cap as int), // [C01]
    wf_shape(self.av(), final(st)@), // [C01 C10]
    wf_order(self.av(), final(st)@), // [C10]
//@before 1 /let want = /
    let ghost s0 = st@;
//@after 1 /unsafe \{ allocated\.clear\(self, st\) \};/
      proof {
        lemma_nodes_below(self.av(), s0);
        lemma_zero_written(s0.bytes, s0.allocated, size as int);
        lemma_wf_frame(self.av(), s0, st@, s0.allocated, s0.allocated + size as int);
      }
//@@end

//@@fn file=unsync.rs scope="impl Arena {" name=alloc_in xlate=unsync st=mut props=C01,C03,C04,C08,C09,C10,C20
//@contract
  requires
    wf(self.av(), old(st)@),
    old(st)@.discarded + 8 <= u32::MAX as int, // [C20]
    layout_ok::<T>(), size_of::<T>() as int + align_of::<T>() as int <= u32::MAX as int,
    self.cap as int + align_of::<T>() as int <= u32::MAX as int,
  ensures
    !self.ro && size_of::<T>() == 0 ==> (r matches Ok(None)) && final(st)@ == old(st)@, // [C03]
    !self.ro && size_of::<T>() > 0 ==> (r.is_err() <==> alloc_fails(self.av(), old(st)@,
        align_up(old(st)@.allocated, align_of::<T>() as int) + size_of::<T>() as int - old(st)@.allocated, pad_of::<T>())), // [C03]
    r matches Ok(None) ==> size_of::<T>() == 0, // [C03]
    r matches Ok(Some(m)) ==> alloc_typed_ok::<T>(self.av(), old(st)@, final(st)@, m.memory_offset as int, m.memory_size as int, m.ptr_offset as int, m.ptr_size as int), // [C03]
    self.ro ==> r matches Err(Error::ReadOnly), // [C09 C04]
    r.is_err() ==> final(st)@ == old(st)@, // [C04 C09]
    r matches Err(e) ==> (e matches Error::ReadOnly) || (e matches Error::InsufficientSpace { .. }), // [C04]
    r matches Ok(Some(m)) ==> meta_ok(self.av(), final(st)@, m.memory_offset as int, m.memory_size as int, m.ptr_offset as int, m.ptr_size as int), // [C01]
    r matches Ok(Some(m)) ==> m.parent_ptr == self.ptr as *const u8,
    free_shrinks(old(st)@, final(st)@), // [C01]
    frame_ok(old(st)@.list, old(st)@.bytes, final(st)@.bytes, old(st)@.allocated, self.cap as int), // [C01]
    wf_shape(self.av(), final(st)@), // [C01 C10]
    wf_order(self.av(), final(st)@), // [C10]
    final(st)@.discarded >= old(st)@.discarded && final(st)@.min_seg == old(st)@.min_seg, // [C20]
//@before 1 /let align_offset = align_offset::<T>\(allocated\);/
    let ghost s0 = st@;
//@after 1 /unsafe \{ allocated\.clear\(self, st\) \};/
      proof {
        lemma_nodes_below(self.av(), s0);
        lemma_wf_frame(self.av(), s0, st@, s0.allocated, self.cap as int);
      }
//@after 2 /allocated\.align_to::<T>\(\);/
          proof {
            lemma_align_up_props(allocated.memory_offset as int, align_of::<T>() as int);
            lemma_clear_narrow(st@.list, allocated.memory_offset as int, allocated.memory_offset as int + 8 + pad_of::<T>(), allocated.memory_offset as int, allocated.ptr_offset as int + allocated.ptr_size as int);
          }
//@after 3 /allocated\.align_to::<T>\(\);/
          proof {
            lemma_align_up_props(allocated.memory_offset as int, align_of::<T>() as int);
            lemma_clear_narrow(st@.list, allocated.memory_offset as int, allocated.memory_offset as int + 8 + pad_of::<T>(), allocated.memory_offset as int, allocated.ptr_offset as int + allocated.ptr_size as int);
          }
//@@end

//@@fn file=unsync.rs scope="impl Arena {" name=alloc_aligned_bytes_in xlate=unsync st=mut props=C01,C03,C04,C09,C10,C20
//@contract
  requires
    wf(self.av(), old(st)@),
    old(st)@.discarded + 8 <= u32::MAX as int, // [C20]
    layout_ok::<T>(), size_of::<T>() as int + align_of::<T>() as int <= u32::MAX as int,
    self.cap as int + align_of::<T>() as int <= u32::MAX as int,
  ensures
    !self.ro && size_of::<T>() == 0 && extra == 0 ==> (r matches Ok(None)) && final(st)@ == old(st)@, // [C03]
    r matches Ok(None) ==> size_of::<T>() == 0 && extra == 0, // [C03]
    !self.ro && !(size_of::<T>() == 0 && extra == 0) ==> (r.is_err() <==> alloc_fails(self.av(), old(st)@,
        align_up(old(st)@.allocated, align_of::<T>() as int) + size_of::<T>() as int + extra as int - old(st)@.allocated, pad_of::<T>() + extra as int)), // [C03]
    r matches Ok(Some(m)) ==> (if size_of::<T>() == 0 && align_of::<T>() == 1 {
        alloc_bytes_ok(self.av(), old(st)@, final(st)@, extra, m.memory_offset as int, m.memory_size as int, m.ptr_offset as int, m.ptr_size as int)
      } else {
        alloc_aligned_ok::<T>(self.av(), old(st)@, final(st)@, extra, m.memory_offset as int, m.memory_size as int, m.ptr_offset as int, m.ptr_size as int)
      }), // [C03]
    final(st)@.discarded >= old(st)@.discarded && final(st)@.min_seg == old(st)@.min_seg, // [C20]
    r matches Ok(Some(m)) ==> m.ptr_offset as int % (align_of::<T>() as int) == 0 && m.ptr_size as int >= size_of::<T>() as int + extra as int, // [C03]
    self.ro ==> r matches Err(Error::ReadOnly), // [C09 C04]
    r.is_err() ==> final(st)@ == old(st)@, // [C04 C09]
    r matches Err(e) ==> (e matches Error::ReadOnly) || (e matches Error::InsufficientSpace { .. }), // [C04]
    r matches Ok(Some(m)) ==> meta_ok(self.av(), final(st)@, m.memory_offset as int, m.memory_size as int, m.ptr_offset as int, m.ptr_size as int), // [C01]
    r matches Ok(Some(m)) ==> m.parent_ptr == self.ptr as *const u8,
    free_shrinks(old(st)@, final(st)@), // [C01]
    frame_ok(old(st)@.list, old(st)@.bytes, final(st)@.bytes, old(st)@.allocated, self.cap as int), // [C01]
    wf_shape(self.av(), final(st)@), // [C01 C10]
    wf_order(self.av(), final(st)@), // [C10]
//@before 1 /let aligned_offset = align_offset::<T>\(allocated\);/
    let ghost s0 = st@;
//@after 1 /allocated\.align_bytes_to::<T>\(\);/
      proof {
        lemma_nodes_below(self.av(), s0);
        lemma_wf_frame(self.av(), s0, st@, s0.allocated, self.cap as int);
      }
//@before 1 /match self\.freelist \{/
    proof { lemma_pick_policy(self.av(), s0, padded); }
//@before 1 /bytes\.align_bytes_to::<T>\(\);/
            proof { lemma_align_up_props(bytes.memory_offset as int, align_of::<T>() as int); lemma_size_ge_align::<T>(); }
//@before 2 /bytes\.align_bytes_to::<T>\(\);/
            proof { lemma_align_up_props(bytes.memory_offset as int, align_of::<T>() as int); lemma_size_ge_align::<T>(); }
//@@end

// ---- release, discard, rewind, accessors (trait methods) ---------------------------------------------------------------

//@@fn file=unsync.rs scope="impl Allocator for Arena {" name=dealloc xlate=unsync st=mut props=C01,C10,C13,C20
//@contract
  requires
    wf(self.av(), old(st)@),
    !self.ro && old(st)@.writable, // [C09]
    extent_ok(self.av(), old(st)@, offset as int, size as int), // [C01 C13]
    old(st)@.discarded + size as int <= u32::MAX as int, // [C20]
  ensures
    dealloc_post(self.av(), old(st)@, final(st)@, offset as int, size as int, r), // [C10 C20 C01]
    free_grows(old(st)@, final(st)@, offset as int, offset as int + size as int), // [C01]
    frame_ok(old(st)@.list, old(st)@.bytes, final(st)@.bytes, offset as int, offset as int + size as int), // [C01]
    wf_shape(self.av(), final(st)@), // [C01 C10]
    wf_order(self.av(), final(st)@), // [C10]
//@before 1 /st\.hdr\.allocated = offset;/
      let ghost s0 = st@;
//@after 1 /st\.hdr\.allocated = offset;/
      proof { lemma_dealloc_top(self.av(), s0, st@, offset as int, size as int); }
//@@end

//@@fn file=unsync.rs scope="impl Allocator for Arena {" name=discard_freelist xlate=unsync st=mut props=C20,C09,C10
//@contract
  requires
    wf(self.av(), old(st)@),
    old(st)@.discarded + sum_sizes(old(st)@.list) <= u32::MAX as int, // [C20]
  ensures
    self.ro ==> (r matches Err(Error::ReadOnly)) && final(st)@ == old(st)@, // [C09 C20]
    !self.ro ==> (r matches Ok(n) && n as int == sum_sizes(old(st)@.list)), // [C20]
    !self.ro ==> final(st)@.list.len() == 0 && final(st)@.discarded == old(st)@.discarded + sum_sizes(old(st)@.list), // [C20 C10]
    final(st)@.allocated == old(st)@.allocated && final(st)@.bytes == old(st)@.bytes && final(st)@.min_seg == old(st)@.min_seg, // [C20 C01]
    wf(self.av(), final(st)@), // [C10]
//@@end

//@@fn file=unsync.rs scope="impl Allocator for Arena {" name=discarded xlate=unsync st=ref props=C20
//@contract
  ensures r as int == st@.discarded, // [C20 C11]
//@@end

//@@fn file=unsync.rs scope="impl Allocator for Arena {" name=minimum_segment_size xlate=unsync st=ref props=C10
//@contract
  ensures r as int == st@.min_seg, // [C10 C11 C16]
//@@end

//@@fn file=unsync.rs scope="impl Allocator for Arena {" name=set_minimum_segment_size xlate=unsync st=mut props=C10,C09
//@contract
  requires !self.ro && old(st)@.writable, // [C09]
  ensures final(st)@ == (SV { min_seg: size as int, ..old(st)@ }), // [C10 C11]
//@@end

//@@fn file=unsync.rs scope="impl Allocator for Arena {" name=set_minimum_segment_size rename=set_minimum_segment_size__ro xlate=unsync st=mut props=C09
//@subst /rt_panic\(\)/ => rt_panic_documented()
//@contract
  requires self.ro && !old(st)@.writable,
  ensures false, // [C09]
//@@end

//@@fn file=unsync.rs scope="impl Allocator for Arena {" name=rewind xlate=unsync st=mut props=C17
//@contract
  requires
    geom(self.av(), old(st)@),
    old(st)@.writable, // [C09]
  ensures
    final(st)@ == (SV { allocated: rewind_target(self.av(), old(st)@, pos), ..old(st)@ }), // [C17]
    self.data_offset as int <= final(st)@.allocated <= self.cap as int, // [C17]
//@@end

} // impl Arena

} // verus!
fn main() {}
