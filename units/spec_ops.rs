// ---- functional specifications of the arena operations over views (hand-written; spec only) -----------
// Written from the property statements (C01, C03, C08, C10, C20), not from the code.

/// bytes of padding before the 8-aligned node word when a range starting at `offset` becomes a segment
pub open spec fn seg_pad(offset: int) -> int { align_up(offset, 8) - offset }

/// C10: "a remainder goes back to the list only if it can hold a node plus the minimum segment size"
pub open spec fn seg_valid(s: SV, offset: int, size: int) -> bool {
  offset != 0 && size != 0 && seg_pad(offset) + 8 < size && size - seg_pad(offset) - 8 >= s.min_seg
}
/// the free-list node a released range [offset, offset+size) turns into
pub open spec fn seg_node(offset: int, size: int) -> Node {
  (align_up(offset, 8) as u32, (size - seg_pad(offset) - 8) as u32)
}

pub open spec fn asc_of(f: Freelist) -> bool { f == Freelist::Pessimistic }

/// list after releasing [offset, offset+size) into the free list (policy position = first_idx)
pub open spec fn list_insert(l: Seq<Node>, n: Node, asc: bool) -> Seq<Node> {
  l.insert(first_idx(l, n.1, asc), n)
}

/// the comparator closure `check` implements the policy comparator chk(asc, ., .)
pub open spec fn cmp_is<F: Fn(u32, u32) -> bool>(check: F, asc: bool) -> bool {
  forall|a: u32, b: u32, res: bool| #[trigger] check.ensures((a, b), res) ==> res == chk(asc, a, b)
}
/// trigger helper for the comparator-polymorphic postconditions below
pub open spec fn tr(asc: bool) -> bool { true }
/// find_position: returns the cell (and its word) after which a node of size `val` belongs
pub open spec fn fp_post(s: SV, val: u32, asc: bool, r: (u64, CellRef)) -> bool {
  r.1 == cell_of(s.list, first_idx(s.list, val, asc) - 1) && r.0 == word(s, r.1)
}
/// find_prev_and_next: Some((prev, node)) for the first node satisfying the comparator, None if there is none
pub open spec fn fpn_post(s: SV, val: u32, asc: bool, r: Option<((u64, CellRef), (u64, CellRef))>) -> bool {
  let i = first_idx(s.list, val, asc);
  match r {
    None => i == s.list.len(),
    Some(p) => 0 <= i < s.list.len() && p.0.1 == cell_of(s.list, i - 1) && p.1.1 == cell_of(s.list, i)
      && p.0.0 == word(s, p.0.1) && p.1.0 == word(s, p.1.1),
  }
}

// ---- slow path (allocation from the free list) -----------------------------------------------------------------

/// C10: which segment serves a request of `size` bytes (l.len() = none)
///  - Optimistic: the head, i.e. the largest segment; fails iff the largest is too small
///  - Pessimistic: the first (= smallest, list is ascending) segment that fits; fails iff none fits
pub open spec fn pick(l: Seq<Node>, size: u32, f: Freelist) -> int {
  match f {
    Freelist::Pessimistic => first_idx(l, size, true),
    Freelist::Optimistic => if l.len() > 0 && size <= l[0].1 { 0 } else { l.len() as int },
    Freelist::None => l.len() as int,
  }
}

/// `pick` is the documented policy, given the order invariant
pub proof fn lemma_pick_policy(a: AV, s: SV, size: u32)
  requires wf_order(a, s)
  ensures ({
    let l = s.list; let k = pick(l, size, a.freelist);
    &&& 0 <= k <= l.len()
    &&& (k == l.len() <==> forall|j: int| 0 <= j < l.len() ==> (#[trigger] l[j]).1 < size)                 // fails iff nothing fits
    &&& (k < l.len() ==> l[k].1 >= size)
    &&& (k < l.len() && a.freelist == Freelist::Optimistic ==> forall|j: int| 0 <= j < l.len() ==> (#[trigger] l[j]).1 <= l[k].1)   // largest
    &&& (k < l.len() && a.freelist == Freelist::Pessimistic ==> forall|j: int| 0 <= j < l.len() && (#[trigger] l[j]).1 >= size ==> l[j].1 >= l[k].1) // smallest that fits
  })
{
  let l = s.list;
  match a.freelist {
    Freelist::Pessimistic => {
      lemma_first_idx_props_from(l, size, true, 0);
      let k = first_idx(l, size, true);
      if k < l.len() {
        assert forall|j: int| 0 <= j < l.len() && (#[trigger] l[j]).1 >= size implies l[j].1 >= l[k].1 by {
          if j < k { assert(!chk(true, size, l[j].1)); } else { assert(l[k].1 <= l[j].1); }
        }
      } else {
        assert forall|j: int| 0 <= j < l.len() implies (#[trigger] l[j]).1 < size by { assert(!chk(true, size, l[j].1)); }
      }
    },
    Freelist::Optimistic => {
      if l.len() > 0 {
        assert forall|j: int| 0 <= j < l.len() implies (#[trigger] l[j]).1 <= l[0].1 by { assert(l[0].1 >= l[j].1); }
      }
    },
    Freelist::None => {},
  }
}

/// abstract result of serving `size` bytes from segment k of the list (state s0 -> s1, returned region m)
pub open spec fn slow_ok(a: AV, s0: SV, s1: SV, size: u32, k: int, mo: int, ms: int, po: int, ps: int) -> bool {
  let l = s0.list; let n = l[k];
  let de = n.0 as int + 8 + size as int; let rem = n.1 as int - size as int;
  let split = seg_valid(s0, de, rem);
  &&& mo == n.0 as int && po == n.0 as int + 8 && ps == size as int
  &&& ms == (if split { size as int } else { n.1 as int })
  &&& s1.list == (if split { list_insert(l.remove(k), seg_node(de, rem), asc_of(a.freelist)) } else { l.remove(k) })
  &&& s1.discarded == s0.discarded + (if split { 8int } else { 0int })
  &&& s1.allocated == s0.allocated && s1.min_seg == s0.min_seg && s1.writable == s0.writable && s1.lo == s0.lo
}

pub open spec fn sum_sizes(l: Seq<Node>) -> int
  decreases l.len()
{
  if l.len() == 0 { 0 } else { l[0].1 as int + sum_sizes(l.remove(0)) }
}

/// free(post) is contained in free(pre): the cursor did not move down and every list byte was a list byte
pub open spec fn free_shrinks(s0: SV, s1: SV) -> bool {
  s1.allocated >= s0.allocated && forall|b: int| #[trigger] in_list(s1.list, b) ==> in_list(s0.list, b) || b >= s0.allocated
}

/// C01/C03 geometry of a returned region: release extent [mo, mo+ms), accessible range [po, po+ps)
pub open spec fn meta_ok(a: AV, s1: SV, mo: int, ms: int, po: int, ps: int) -> bool {
  &&& a.data_offset <= mo <= po
  &&& po + ps <= s1.allocated <= a.cap
  &&& mo + ms <= s1.allocated
  &&& clear_of_list(s1.list, mo, po + ps)
  &&& clear_of_list(s1.list, mo, mo + ms)
}

// ---- top-level allocation results ------------------------------------------------------------------------------------

/// fresh-space (bump) allocation of `total` bytes starting at the cursor: only the cursor and bytes above it change
pub open spec fn bump_ok(s0: SV, s1: SV, total: int) -> bool {
  s1.allocated == s0.allocated + total && s1.list == s0.list && s1.discarded == s0.discarded && s1.min_seg == s0.min_seg
  && s1.sentinel == s0.sentinel && s1.writable == s0.writable && s1.lo == s0.lo
}

/// C03/C01/C10: result of alloc_bytes(size), size > 0, on a writable arena
pub open spec fn alloc_bytes_ok(a: AV, s0: SV, s1: SV, size: u32, mo: int, ms: int, po: int, ps: int) -> bool {
  if s0.allocated + size as int <= a.cap {
    mo == s0.allocated && ms == size as int && po == mo && ps == size as int && bump_ok(s0, s1, size as int)
  } else {
    slow_ok(a, s0, s1, size, pick(s0.list, size, a.freelist), mo, ms, po, ps)
  }
}
/// allocation fails iff fresh space is too small and the free-list policy finds no segment
pub open spec fn alloc_fails(a: AV, s0: SV, fresh_total: int, slow_size: int) -> bool {
  s0.allocated + fresh_total > a.cap && (slow_size > u32::MAX as int || pick(s0.list, slow_size as u32, a.freelist) == s0.list.len())
}

pub open spec fn pad_of<T>() -> int { size_of::<T>() as int + align_of::<T>() as int - 1 }

/// C03: result of alloc::<T>() (size_of T > 0)
pub open spec fn alloc_typed_ok<T>(a: AV, s0: SV, s1: SV, mo: int, ms: int, po: int, ps: int) -> bool {
  let al = align_of::<T>() as int; let sz = size_of::<T>() as int;
  let aligned = align_up(s0.allocated, al);
  &&& ps == sz && po % al == 0
  &&& if aligned + sz <= a.cap {
        mo == s0.allocated && ms == aligned + sz - s0.allocated && po == aligned && bump_ok(s0, s1, aligned + sz - s0.allocated)
      } else {
        let k = pick(s0.list, pad_of::<T>() as u32, a.freelist);
        slow_ok(a, s0, s1, pad_of::<T>() as u32, k, mo, ms, s0.list[k].0 as int + 8, pad_of::<T>()) && po == align_up(mo, al)
      }
}
/// C03: result of alloc_aligned_bytes::<T>(extra) (size_of T > 0)
pub open spec fn alloc_aligned_ok<T>(a: AV, s0: SV, s1: SV, extra: u32, mo: int, ms: int, po: int, ps: int) -> bool {
  let al = align_of::<T>() as int; let sz = size_of::<T>() as int;
  let aligned = align_up(s0.allocated, al);
  &&& ps >= sz + extra as int && po % al == 0 && po + ps == mo + ms
  &&& if aligned + sz + extra as int <= a.cap {
        mo == s0.allocated && ms == aligned + sz + extra as int - s0.allocated && po == aligned && bump_ok(s0, s1, ms)
      } else {
        let k = pick(s0.list, (pad_of::<T>() + extra as int) as u32, a.freelist);
        slow_ok(a, s0, s1, (pad_of::<T>() + extra as int) as u32, k, mo, ms, s0.list[k].0 as int + 8, pad_of::<T>() + extra as int) && po == align_up(mo, al)
      }
}

// ---- release ------------------------------------------------------------------------------------------------------------

/// the extent [offset, offset+size) handed to dealloc: either the null extent of a zero-sized handle, or a range
/// that was handed out (inside the data area, below the cursor) and is not free already
pub open spec fn extent_ok(a: AV, s: SV, offset: int, size: int) -> bool {
  (offset == 0 && size == 0) || (size >= 0 && a.data_offset <= offset && offset + size <= s.allocated && clear_of_list(s.list, offset, offset + size))
}

/// C10/C20: release of [offset, offset+size)
pub open spec fn dealloc_post(a: AV, s0: SV, s1: SV, offset: int, size: int, r: bool) -> bool {
  if s0.allocated == offset + size {
    r && s1 == (SV { allocated: offset, ..s0 })                                  // topmost allocation: cursor moves back
  } else {
    match a.freelist {
      Freelist::None => r && s1 == (SV { discarded: s0.discarded + size, ..s0 }),                // never reused, only counted
      _ => {
        &&& r == seg_valid(s0, offset, size)
        &&& r ==> s1.list == list_insert(s0.list, seg_node(offset, size), asc_of(a.freelist)) && s1.discarded == s0.discarded + 8
        &&& !r ==> s1 == (SV { discarded: s0.discarded + (if offset == 0 || size == 0 { 0 } else { size }), ..s0 })   // too small: counted, never reused
        &&& s1.allocated == s0.allocated && s1.min_seg == s0.min_seg && s1.writable == s0.writable && s1.lo == s0.lo
      },
    }
  }
}

/// free(post) is contained in free(pre) plus the released extent
pub open spec fn free_grows(s0: SV, s1: SV, lo: int, hi: int) -> bool {
  forall|b: int| #[trigger] in_free(s1, b) ==> in_free(s0, b) || lo <= b < hi
}

// ---- rewind ---------------------------------------------------------------------------------------------------------------

pub open spec fn clamp(x: int, lo: int, hi: int) -> int { if x < lo { lo } else if x > hi { hi } else { x } }
/// C17: Start(n) = n, End(n) = capacity - n, Current(d) = allocated + d over the mathematical integers, clamped
pub open spec fn rewind_target(a: AV, s: SV, pos: ArenaPosition) -> int {
  clamp(match pos {
    ArenaPosition::Start(n) => n as int,
    ArenaPosition::End(n) => a.cap - n as int,
    ArenaPosition::Current(d) => s.allocated + d as int,
  }, a.data_offset, a.cap)
}
