// ---- functional specifications of the arena operations over views (hand-written; spec only) -----------
// Written from the property statements (C01, C03, C08, C10, C20), not from the code.

/// bytes of padding before the 8-aligned node word when a range starting at `offset` becomes a segment
pub open spec fn seg_pad(offset: int) -> int { align_up(offset, 8) - offset }

/// C10: "a remainder goes back to the list only if it can hold a node plus the minimum segment size"
pub open spec fn seg_valid(s: SV, offset: int, size: int) -> bool {
  offset != 0 && size != 0 && seg_pad(offset) + 8 < size && size - seg_pad(offset) - 8 >= s.min_seg
}
/// the free-list node a released range [offset, offset+size) turns into
pub open spec fn seg_node(offset: int, size: int) -> Node {
  (align_up(offset, 8) as u32, (size - seg_pad(offset) - 8) as u32)
}

pub open spec fn asc_of(f: Freelist) -> bool { f == Freelist::Pessimistic }

/// list after releasing [offset, offset+size) into the free list (policy position = first_idx)
pub open spec fn list_insert(l: Seq<Node>, n: Node, asc: bool) -> Seq<Node> {
  l.insert(first_idx(l, n.1, asc), n)
}

/// the comparator closure `check` implements the policy comparator chk(asc, ., .)
pub open spec fn cmp_is<F: Fn(u32, u32) -> bool>(check: F, asc: bool) -> bool {
  forall|a: u32, b: u32, res: bool| #[trigger] check.ensures((a, b), res) ==> res == chk(asc, a, b)
}
/// find_position: returns the cell (and its word) after which a node of size `val` belongs
pub open spec fn fp_post(s: SV, val: u32, asc: bool, r: (u64, CellRef)) -> bool {
  r.1 == cell_of(s.list, first_idx(s.list, val, asc) - 1) && r.0 == word(s, r.1)
}
/// find_prev_and_next: Some((prev, node)) for the first node satisfying the comparator, None if there is none
pub open spec fn fpn_post(s: SV, val: u32, asc: bool, r: Option<((u64, CellRef), (u64, CellRef))>) -> bool {
  let i = first_idx(s.list, val, asc);
  match r {
    None => i == s.list.len(),
    Some(p) => 0 <= i < s.list.len() && p.0.1 == cell_of(s.list, i - 1) && p.1.1 == cell_of(s.list, i)
      && p.0.0 == word(s, p.0.1) && p.1.0 == word(s, p.1.1),
  }
}
