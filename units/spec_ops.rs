// ---- functional specifications of the arena operations over views (hand-written; spec only) -----------
// Written from the property statements (C01, C03, C08, C10, C20), not from the code.

/// bytes of padding before the 8-aligned node word when a range starting at `offset` becomes a segment
pub open spec fn seg_pad(offset: int) -> int { align_up(offset, 8) - offset }

/// C10: "a remainder goes back to the list only if it can hold a node plus the minimum segment size"
pub open spec fn seg_valid(s: SV, offset: int, size: int) -> bool {
  offset != 0 && size != 0 && seg_pad(offset) + 8 < size && size - seg_pad(offset) - 8 >= s.min_seg
}
/// the free-list node a released range [offset, offset+size) turns into
pub open spec fn seg_node(offset: int, size: int) -> Node {
  (align_up(offset, 8) as u32, (size - seg_pad(offset) - 8) as u32)
}

pub open spec fn asc_of(f: Freelist) -> bool { f == Freelist::Pessimistic }

/// list after releasing [offset, offset+size) into the free list (policy position = first_idx)
pub open spec fn list_insert(l: Seq<Node>, n: Node, asc: bool) -> Seq<Node> {
  l.insert(first_idx(l, n.1, asc), n)
}

/// find_position: the returned cell is list cell i (-1 = sentinel), no node up to i satisfies the comparator,
/// and node i+1 (if any) does
pub open spec fn fp_post<F: Fn(u32, u32) -> bool>(s: SV, val: u32, check: F, r: (u64, CellRef), i: int) -> bool {
  &&& -1 <= i < s.list.len() && r.1 == cell_of(s.list, i) && r.0 == word(s, r.1)
  &&& forall|j: int| 0 <= j <= i ==> check.ensures((val, #[trigger] s.list[j].1), false)
  &&& (i + 1 == s.list.len() || check.ensures((val, s.list[i + 1].1), true))
}
/// find_prev_and_next: node i is the first one satisfying the comparator; its predecessor cell is returned too
pub open spec fn fpn_some<F: Fn(u32, u32) -> bool>(s: SV, val: u32, check: F, p: ((u64, CellRef), (u64, CellRef)), i: int) -> bool {
  &&& 0 <= i < s.list.len()
  &&& p.0.1 == cell_of(s.list, i - 1) && p.1.1 == cell_of(s.list, i)
  &&& p.0.0 == word(s, p.0.1) && p.1.0 == word(s, p.1.1)
  &&& forall|j: int| 0 <= j < i ==> check.ensures((val, #[trigger] s.list[j].1), false)
  &&& check.ensures((val, s.list[i].1), true)
}
