
// ================================================================================================================
// C13: release exactly once - Drop bodies, detach, to_owned, constructors (bytes.rs / object.rs, original source)
// ================================================================================================================

/// ghost arena-side state observed by the handle code: release log, arena reference count, values dropped in place
pub struct St { pub log: Ghost<Seq<(u32, u32)>>, pub refs: Ghost<int>, pub drops: Ghost<int> }

/// stands for `&'a A` / `A` (an arena handle); only the calls the handle code makes on it are modelled (trusted)
#[derive(Copy, Clone, PartialEq, Eq)]
pub struct ArenaTok { pub ptr: *const u8 }
impl ArenaTok {
  #[verifier::external_body]
  pub fn dealloc(&self, st: &mut St, offset: u32, size: u32) -> (r: bool)
    ensures final(st).log@ == old(st).log@.push((offset, size)), final(st).refs == old(st).refs, final(st).drops == old(st).drops,
  { unimplemented!() }
  #[verifier::external_body]
  pub fn clone_arena(&self, st: &mut St) -> (r: ArenaTok)
    ensures r == *self, final(st).refs@ == old(st).refs@ + 1, final(st).log == old(st).log, final(st).drops == old(st).drops,
  { unimplemented!() }
  pub fn raw_ptr(&self) -> (r: *const u8) ensures r == self.ptr { self.ptr }
  // read-only accessors of the Allocator trait: results are unconstrained (a handle must behave for any value)
  #[verifier::external_body] pub fn refs(&self) -> usize { unimplemented!() }
  #[verifier::external_body] pub fn allocated(&self) -> usize { unimplemented!() }
  #[verifier::external_body] pub fn capacity(&self) -> usize { unimplemented!() }
  #[verifier::external_body] pub fn remaining(&self) -> usize { unimplemented!() }
  #[verifier::external_body] pub fn discarded(&self) -> u32 { unimplemented!() }
  #[verifier::external_body] pub fn data_offset(&self) -> usize { unimplemented!() }
  #[verifier::external_body] pub fn read_only(&self) -> bool { unimplemented!() }
  #[verifier::external_body] pub fn is_ondisk(&self) -> bool { unimplemented!() }
  #[verifier::external_body] pub fn is_inmemory(&self) -> bool { unimplemented!() }
  #[verifier::external_body] pub fn minimum_segment_size(&self) -> u32 { unimplemented!() }
}
#[derive(Copy, Clone, PartialEq, Eq)]
pub struct NullTok {}
#[derive(Copy, Clone, PartialEq, Eq)]
pub enum Either<L, R> { Left(L), Right(R) }

impl Meta {
//@@fn file=lib.rs scope="impl Meta {" name=null props=C13,C03
//@contract
  ensures r.memory_offset == 0, r.memory_size == 0, r.ptr_offset == 0, r.ptr_size == 0, r.parent_ptr == parent_ptr, // [C13 C03]
//@@end
}

pub struct BytesRefMut { pub arena: ArenaTok, pub len: usize, pub allocated: Meta, pub detach: bool }
pub struct BytesMut { pub arena: Either<ArenaTok, NullTok>, pub len: usize, pub allocated: Meta, pub detach: bool }

impl BytesMut {
//@@fn file=bytes.rs scope="impl<A: Allocator> BytesMut<A> {" name=null xlate=plain props=C13,C03
//@subst /NonNull::dangling\(\)/ => NullTok {}
//@contract
  ensures r.arena == Either::<ArenaTok, NullTok>::Right(NullTok {}), r.len == 0, !r.detach, r.allocated.memory_size == 0 && r.allocated.ptr_size == 0 && r.allocated.memory_offset == 0, // [C13 C03]
//@@end

//@@fn file=bytes.rs scope="impl<A: Allocator> Drop for BytesMut<A> {" name=drop rename=drop_bytes_mut xlate=plain st=mut props=C13,C01
//@subst /Either::Left\(ref mut arena\)/ => Either::Left(arena)
//@subst /arena\.dealloc\(/ => arena.dealloc(st, 
//@contract
  ensures
    *final(self) == *old(self),
    final(st).refs == old(st).refs && final(st).drops == old(st).drops,
    final(st).log@ == (if old(self).arena is Left && !old(self).detach { old(st).log@.push((old(self).allocated.memory_offset, old(self).allocated.memory_size)) } else { old(st).log@ }), // [C13 C01]
//@@end
}

impl BytesRefMut {
//@@fn file=bytes.rs scope="impl<'a, A: Allocator> BytesRefMut<'a, A> {" name=new rename=new_ref xlate=plain props=C13,C03
//@subst /arena: &'a A/ => arena: ArenaTok
//@contract
  ensures r.arena == arena, r.len == 0, r.allocated == allocated, !r.detach, // [C13 C03]
//@@end

//@@fn file=bytes.rs scope="impl<'a, A: Allocator> BytesRefMut<'a, A> {" name=null rename=null_ref xlate=plain props=C13,C03
//@subst /arena: &'a A/ => arena: ArenaTok
//@contract
  ensures r.arena == arena, r.len == 0, !r.detach, r.allocated.memory_size == 0 && r.allocated.ptr_size == 0 && r.allocated.memory_offset == 0 && r.allocated.ptr_offset == 0, // [C13 C03 C01]
//@@end

//@@fn file=bytes.rs scope="impl<'a, A: Allocator> BytesRefMut<'a, A> {" name=to_owned xlate=plain st=mut props=C13
//@subst /-> \(r: BytesMut<A>\)/ => -> (r: BytesMut)
//@subst /self\.arena\.clone\(\)/ => self.arena.clone_arena(st)
//@contract
  ensures
    final(st).log == old(st).log && final(st).drops == old(st).drops,
    old(self).allocated.memory_size == 0 ==> *final(self) == *old(self) && final(st).refs == old(st).refs
        && r.arena is Right && r.allocated.memory_size == 0 && !r.detach, // [C13]
    old(self).allocated.memory_size != 0 ==> final(self).detach && final(self).allocated == old(self).allocated && final(self).len == old(self).len && final(self).arena == old(self).arena
        && r.arena == Either::<ArenaTok, NullTok>::Left(old(self).arena) && r.allocated == old(self).allocated && r.len == old(self).len && !r.detach
        && final(st).refs@ == old(st).refs@ + 1, // [C13]
//@@end

//@@fn file=bytes.rs scope="impl<A: Allocator> Drop for BytesRefMut<'_, A> {" name=drop rename=drop_bytes_ref xlate=plain st=mut props=C13,C01
//@subst /self\s*\.arena\s*\.dealloc\(/ => self.arena.dealloc(st, 
//@contract
  ensures
    *final(self) == *old(self),
    final(st).refs == old(st).refs && final(st).drops == old(st).drops,
    final(st).log@ == (if !old(self).detach { old(st).log@.push((old(self).allocated.memory_offset, old(self).allocated.memory_size)) } else { old(st).log@ }), // [C13 C01]
//@@end

//@@fn file=bytes.rs scope="impl<A: Allocator> crate::Buffer for BytesRefMut<'_, A> {" name=detach rename=detach_ref xlate=plain props=C13
//@contract
  ensures *final(self) == (BytesRefMut { detach: true, ..*old(self) }), // [C13]
//@@end
}

/// C13: "an owned handle releases exactly what the corresponding borrowed handle would", once in total
fn c13_to_owned_then_drop_both(h: &mut BytesRefMut, st: &mut St)
  requires !old(h).detach,
  ensures final(st).log@ == old(st).log@.push((old(h).allocated.memory_offset, old(h).allocated.memory_size)), // [C13]
    final(st).drops == old(st).drops,
{
  let mut o = h.to_owned(st);
  h.drop_bytes_ref(st);
  o.drop_bytes_mut(st);
}
/// C13: a detached handle releases nothing
fn c13_detached_releases_nothing(h: &mut BytesRefMut, st: &mut St)
  ensures final(st).log@ == old(st).log@, // [C13]
{
  unsafe { h.detach_ref(); }
  h.drop_bytes_ref(st);
}

// ---- object.rs: RefMut / Owned ---------------------------------------------------------------------------------------
pub uninterp spec fn spec_needs_drop<T>() -> bool;
#[verifier::external_body]
pub fn needs_drop_shim<T>() -> (r: bool) ensures r == spec_needs_drop::<T>() { core::mem::needs_drop::<T>() }
#[derive(Copy, Clone, PartialEq, Eq)]
pub struct SlotPtr { pub null: bool }
impl SlotPtr { pub fn is_null(&self) -> (r: bool) ensures r == self.null { self.null } }
#[derive(Copy, Clone, PartialEq, Eq)]
pub struct SlotTok { pub null: bool }
impl SlotTok { pub fn as_mut_ptr(&self) -> (r: SlotPtr) ensures r.null == self.null { SlotPtr { null: self.null } } }
#[derive(Copy, Clone, PartialEq, Eq)]
pub struct PtrTok {}
#[verifier::external_body]
pub fn drop_in_place_shim(st: &mut St, p: SlotPtr)
  requires !p.null,
  ensures final(st).drops@ == old(st).drops@ + 1, final(st).log == old(st).log, final(st).refs == old(st).refs,
{ unimplemented!() }

#[derive(Copy, Clone, PartialEq, Eq)]
pub enum Kind { Slot(SlotTok), Inline(PtrTok), Dangling(PtrTok) }
pub struct RefMut { pub kind: Kind, pub arena: ArenaTok, pub detached: bool, pub allocated: Meta }
pub struct Owned { pub kind: Kind, pub arena: ArenaTok, pub detached: bool, pub allocated: Meta }

pub open spec fn obj_drop_log(kind: Kind, detached: bool, m: Meta, log: Seq<(u32, u32)>) -> Seq<(u32, u32)> {
  if !detached && !(kind is Dangling) { log.push((m.memory_offset, m.memory_size)) } else { log }
}
pub open spec fn obj_drop_count<T>(kind: Kind, detached: bool, drops: int) -> int {
  if !detached && spec_needs_drop::<T>() && (kind matches Kind::Slot(s) && !s.null) { drops + 1 } else { drops }
}

impl Kind {
//@@fn file=object.rs scope="impl<T> Default for Kind<T> {" name=default rename=kind_default xlate=plain props=C13
//@subst /fn default\(\)/ => fn default<T>()
//@subst /core::mem::needs_drop::<T>\(\)/ => needs_drop_shim::<T>()
//@subst /Kind::Dangling\(NonNull::dangling\(\)\)/ => Kind::Dangling(PtrTok {})
//@subst /Kind::Slot\(MaybeUninit::uninit\(\)\)/ => Kind::Slot(SlotTok { null: false })
//@subst /Kind::Inline\(NonNull::dangling\(\)\)/ => Kind::Inline(PtrTok {})
//@contract
  ensures
    size_of::<T>() == 0 ==> r is Dangling, // [C13]
    size_of::<T>() != 0 && spec_needs_drop::<T>() ==> r is Slot, // [C13]
    size_of::<T>() != 0 && !spec_needs_drop::<T>() ==> r is Inline, // [C13]
//@@end
}
impl RefMut {
  /// `mem::take(&mut self.kind)`: returns the current value and leaves `Kind::default()` behind (std semantics written out)
  pub fn take_kind<T>(&mut self) -> (r: Kind)
    ensures r == old(self).kind, final(self).arena == old(self).arena && final(self).detached == old(self).detached && final(self).allocated == old(self).allocated,
  { let k = self.kind; self.kind = Kind::kind_default::<T>(); k }
//@@fn file=object.rs scope="impl<'a, T, A: Allocator> RefMut<'a, T, A> {" name=to_owned rename=to_owned_ref_mut xlate=plain st=mut props=C13
//@subst /fn to_owned\(/ => fn to_owned<T>(
//@subst /-> \(r: Owned<T, A>\)/ => -> (r: Owned)
//@subst /self\.arena\.clone\(\)/ => self.arena.clone_arena(st)
//@subst /(?:core::)?mem::take\(&mut self\.kind\)/ => self.take_kind::<T>()
//@contract
  ensures
    final(st).log == old(st).log && final(st).drops == old(st).drops,
    final(st).refs@ == old(st).refs@ + 1, // [C13]
    final(self).detached && final(self).allocated == old(self).allocated && final(self).arena == old(self).arena, // [C13]
    r.kind == old(self).kind && r.allocated == old(self).allocated && r.arena == old(self).arena && !r.detached, // [C13]
//@@end
}
impl RefMut {
//@@fn file=object.rs scope="impl<T, A: Allocator> Drop for RefMut<'_, T, A> {" name=drop rename=drop_ref_mut xlate=plain st=mut props=C13,C01
//@subst /fn drop\(/ => fn drop<T>(
//@subst /match &mut self\.kind/ => match self.kind
//@subst /core::mem::needs_drop::<T>\(\)/ => needs_drop_shim::<T>()
//@subst /ptr::drop_in_place\(ptr\)/ => drop_in_place_shim(st, ptr)
//@subst /self\s*\.arena\s*\.dealloc\(/ => self.arena.dealloc(st, 
//@contract
  ensures
    *final(self) == *old(self), final(st).refs == old(st).refs,
    final(st).log@ == obj_drop_log(old(self).kind, old(self).detached, old(self).allocated, old(st).log@), // [C13 C01]
    final(st).drops@ == obj_drop_count::<T>(old(self).kind, old(self).detached, old(st).drops@), // [C13]
//@@end

//@@fn file=object.rs scope="impl<T, A: Allocator> crate::Buffer for RefMut<'_, T, A> {" name=capacity rename=capacity_ref_mut xlate=plain props=C13,C03,C01
//@contract
  ensures r as int == self.allocated.ptr_size as int, // [C03 C13]
//@@end
//@@fn file=object.rs scope="impl<T, A: Allocator> crate::Buffer for RefMut<'_, T, A> {" name=offset rename=offset_ref_mut xlate=plain props=C13,C03,C01
//@contract
  ensures r as int == self.allocated.ptr_offset as int, // [C03 C13]
//@@end
//@@fn file=object.rs scope="impl<T, A: Allocator> crate::Buffer for RefMut<'_, T, A> {" name=buffer_capacity rename=buffer_capacity_ref_mut xlate=plain props=C13,C03,C01
//@contract
  ensures r as int == self.allocated.memory_size as int, // [C13 C01]
//@@end
//@@fn file=object.rs scope="impl<T, A: Allocator> crate::Buffer for RefMut<'_, T, A> {" name=buffer_offset rename=buffer_offset_ref_mut xlate=plain props=C13,C03,C01
//@contract
  ensures r as int == self.allocated.memory_offset as int, // [C13 C01]
//@@end
//@@fn file=object.rs scope="impl<T, A: Allocator> crate::Buffer for RefMut<'_, T, A> {" name=detach rename=detach_ref_mut xlate=plain props=C13
//@contract
  ensures *final(self) == (RefMut { detached: true, ..*old(self) }), // [C13]
//@@end
}

impl Owned {
//@@fn file=object.rs scope="impl<T, A: Allocator> Drop for Owned<T, A> {" name=drop rename=drop_owned xlate=plain st=mut props=C13,C01
//@subst /fn drop\(/ => fn drop<T>(
//@subst /match &mut self\.kind/ => match self.kind
//@subst /core::mem::needs_drop::<T>\(\)/ => needs_drop_shim::<T>()
//@subst /ptr::drop_in_place\(ptr\)/ => drop_in_place_shim(st, ptr)
//@subst /self\s*\.arena\s*\.dealloc\(/ => self.arena.dealloc(st, 
//@contract
  ensures
    *final(self) == *old(self), final(st).refs == old(st).refs,
    final(st).log@ == obj_drop_log(old(self).kind, old(self).detached, old(self).allocated, old(st).log@), // [C13 C01]
    final(st).drops@ == obj_drop_count::<T>(old(self).kind, old(self).detached, old(st).drops@), // [C13]
//@@end

//@@fn file=object.rs scope="impl<T, A: Allocator> crate::Buffer for Owned<T, A> {" name=capacity rename=capacity_owned xlate=plain props=C13,C03,C01
//@contract
  ensures r as int == self.allocated.ptr_size as int, // [C03 C13]
//@@end
//@@fn file=object.rs scope="impl<T, A: Allocator> crate::Buffer for Owned<T, A> {" name=offset rename=offset_owned xlate=plain props=C13,C03,C01
//@contract
  ensures r as int == self.allocated.ptr_offset as int, // [C03 C13]
//@@end
//@@fn file=object.rs scope="impl<T, A: Allocator> crate::Buffer for Owned<T, A> {" name=buffer_capacity rename=buffer_capacity_owned xlate=plain props=C13,C03,C01
//@contract
  ensures r as int == self.allocated.memory_size as int, // [C13 C01]
//@@end
//@@fn file=object.rs scope="impl<T, A: Allocator> crate::Buffer for Owned<T, A> {" name=buffer_offset rename=buffer_offset_owned xlate=plain props=C13,C03,C01
//@contract
  ensures r as int == self.allocated.memory_offset as int, // [C13 C01]
//@@end
//@@fn file=object.rs scope="impl<T, A: Allocator> crate::Buffer for Owned<T, A> {" name=detach rename=detach_owned xlate=plain props=C13
//@contract
  ensures *final(self) == (Owned { detached: true, ..*old(self) }), // [C13]
//@@end
}

/// C13 (typed handles): "an owned handle releases exactly what the corresponding borrowed handle would", once in total, and
/// the value is dropped in place exactly once
fn c13_typed_to_owned_then_drop_both<T>(h: &mut RefMut, st: &mut St)
  requires !old(h).detached,
  ensures
    final(st).log@ == obj_drop_log(old(h).kind, false, old(h).allocated, old(st).log@), // [C13]
    final(st).drops@ == obj_drop_count::<T>(old(h).kind, false, old(st).drops@), // [C13]
{
  let mut o = h.to_owned_ref_mut::<T>(st);
  h.drop_ref_mut::<T>(st);
  o.drop_owned::<T>(st);
}
