// U_rc: Arena::clone and Arena::drop of both flavours (C13: refs() counts the live arena values, the backing memory is
// unmounted exactly once, by the drop that brings the count to zero)
use vstd::prelude::*;
verus! {

global size_of usize == 8; // assumption: 64-bit target

#[derive(Copy, Clone, PartialEq, Eq)]
pub enum Ordering { Relaxed, Release, Acquire, AcqRel, SeqCst }
#[derive(Copy, Clone, PartialEq, Eq)]
pub enum Freelist { None, Optimistic, Pessimistic }
#[derive(Copy, Clone, PartialEq, Eq)]
pub struct MemoryFlags { pub bits: u8 }
/// stands for `NonNull<Memory>`: identity of the shared Memory
#[derive(Copy, Clone, PartialEq, Eq)]
pub struct InnerTok { pub id: usize }

/// ghost state of the shared Memory: the reference counter and how often unmount ran (single thread)
pub struct St { pub refs: Ghost<int>, pub unmounted: Ghost<int> }

/// `&Memory` / `Box<Memory>` obtained from `self.inner` (trusted shim)
pub struct MemTok {}
impl MemTok {
  pub fn of(a: &Arena) -> MemTok { MemTok {} }
  /// `memory.refs().fetch_add(v, ordering)` (AtomicUsize resp. UnsafeCell<usize>; sequential semantics)
  #[verifier::external_body]
  pub fn refs_fetch_add(&self, st: &mut St, v: usize, o: Ordering) -> (r: usize)
    requires 0 <= old(st).refs@ <= usize::MAX as int - v as int,
    ensures r as int == old(st).refs@, final(st).refs@ == old(st).refs@ + v as int, final(st).unmounted == old(st).unmounted,
  { unimplemented!() }
  #[verifier::external_body]
  pub fn refs_fetch_sub(&self, st: &mut St, v: usize, o: Ordering) -> (r: usize)
    requires old(st).refs@ >= v as int, old(st).refs@ <= usize::MAX as int, // [C13] the counter never goes below zero
    ensures r as int == old(st).refs@, final(st).refs@ == old(st).refs@ - v as int, final(st).unmounted == old(st).unmounted,
  { unimplemented!() }
  #[verifier::external_body]
  pub fn refs_load(&self, st: &St, o: Ordering) -> (r: usize)
    requires 0 <= st.refs@ <= usize::MAX as int,
    ensures r as int == st.refs@,
  { unimplemented!() }
  /// `Box::from_raw(memory_ptr).unmount()`: releases the backing memory / unmaps and syncs the file
  #[verifier::external_body]
  pub fn unmount(&self, st: &mut St)
    requires old(st).refs@ == 0, old(st).unmounted@ == 0, // [C13] only the last owner unmounts, and only once
    ensures final(st).unmounted@ == 1, final(st).refs == old(st).refs,
  { unimplemented!() }
}
/// `dbutils::abort()`: never returns
#[verifier::external_body]
pub fn rt_abort() ensures false { std::process::abort() }

pub struct Arena {
  pub ptr: *mut u8, pub cap: u32, pub inner: InnerTok, pub reserved: usize, pub data_offset: u32, pub flag: MemoryFlags,
  pub max_retries: u8, pub unify: bool, pub magic_version: u16, pub version: u16, pub ro: bool, pub freelist: Freelist, pub page_size: u32,
}

impl Arena {

//@@fn file=unsync.rs scope="impl Clone for Arena {" name=clone rename=clone_unsync xlate=plain st=mut props=C13
//@subst? /use super::sealed::RefCounter;/ => 
//@subst /let memory = self\.inner\.as_ref\(\);/ => let memory = MemTok::of(self);
//@subst /memory\.refs\(\)\.fetch_add\((.+?), Ordering::(\w+)\)/ => memory.refs_fetch_add(st, \1, Ordering::\2)
//@subst /dbutils::abort\(\);/ => rt_abort();
//@contract
  requires 1 <= old(st).refs@ <= usize::MAX as int - 1,
  ensures
    final(st).refs@ == old(st).refs@ + 1, // [C13]
    final(st).unmounted == old(st).unmounted,
    r.inner == self.inner && r.ptr == self.ptr && r.cap == self.cap && r.data_offset == self.data_offset && r.ro == self.ro
      && r.freelist == self.freelist && r.reserved == self.reserved && r.unify == self.unify && r.max_retries == self.max_retries
      && r.magic_version == self.magic_version && r.version == self.version && r.flag == self.flag && r.page_size == self.page_size, // [C13 C16] a clone is a handle on the same arena
//@@end

//@@fn file=unsync.rs scope="impl Drop for Arena {" name=drop rename=drop_unsync xlate=plain st=mut props=C13
//@subst? /use super::sealed::RefCounter;/ => 
//@subst /let memory_ptr = self\.inner\.as_ptr\(\);\s*let memory = &\*memory_ptr;/ => let memory = MemTok::of(self);
//@subst /memory\.refs\(\)\.fetch_sub\((.+?), Ordering::(\w+)\)/ => memory.refs_fetch_sub(st, \1, Ordering::\2)
//@subst? /memory\.refs\(\)\.load\(Ordering::Acquire\);/ => memory.refs_load(st, Ordering::Acquire);
//@subst /let mut memory = Box::from_raw\(memory_ptr\);\s*memory\.unmount\(\);/ => memory.unmount(st);
//@contract
  requires 1 <= old(st).refs@ <= usize::MAX as int, old(st).unmounted@ == 0,
  ensures
    final(st).refs@ == old(st).refs@ - 1, // [C13]
    final(st).unmounted@ == (if old(st).refs@ == 1 { 1int } else { 0int }), // [C13] released exactly once, when the count reaches zero
//@@end

//@@fn file=sync.rs scope="impl Clone for Arena {" name=clone rename=clone_sync xlate=plain st=mut props=C13
//@subst? /use super::sealed::RefCounter;/ => 
//@subst /let memory = self\.inner\.as_ref\(\);/ => let memory = MemTok::of(self);
//@subst /memory\.refs\(\)\.fetch_add\((.+?), Ordering::(\w+)\)/ => memory.refs_fetch_add(st, \1, Ordering::\2)
//@subst /dbutils::abort\(\);/ => rt_abort();
//@contract
  requires 1 <= old(st).refs@ <= usize::MAX as int - 1,
  ensures
    final(st).refs@ == old(st).refs@ + 1, // [C13]
    final(st).unmounted == old(st).unmounted,
    r.inner == self.inner && r.ptr == self.ptr && r.cap == self.cap && r.data_offset == self.data_offset && r.ro == self.ro
      && r.freelist == self.freelist && r.reserved == self.reserved && r.unify == self.unify && r.max_retries == self.max_retries
      && r.magic_version == self.magic_version && r.version == self.version && r.flag == self.flag && r.page_size == self.page_size, // [C13 C16] a clone is a handle on the same arena
//@@end

//@@fn file=sync.rs scope="impl Drop for Arena {" name=drop rename=drop_sync xlate=plain st=mut props=C13
//@subst? /use super::sealed::RefCounter;/ => 
//@subst /let memory_ptr = self\.inner\.as_ptr\(\);\s*let memory = &\*memory_ptr;/ => let memory = MemTok::of(self);
//@subst /memory\.refs\(\)\.fetch_sub\((.+?), Ordering::(\w+)\)/ => memory.refs_fetch_sub(st, \1, Ordering::\2)
//@subst? /memory\.refs\(\)\.load\(Ordering::Acquire\);/ => memory.refs_load(st, Ordering::Acquire);
//@subst /let mut memory = Box::from_raw\(memory_ptr\);\s*memory\.unmount\(\);/ => memory.unmount(st);
//@contract
  requires 1 <= old(st).refs@ <= usize::MAX as int, old(st).unmounted@ == 0,
  ensures
    final(st).refs@ == old(st).refs@ - 1, // [C13]
    final(st).unmounted@ == (if old(st).refs@ == 1 { 1int } else { 0int }), // [C13] released exactly once, when the count reaches zero
//@@end

}

} // verus!
fn main() {}
