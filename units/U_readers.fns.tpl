
//@@fn file=allocator.rs src=expanded scope="%SCOPE%" name=get_u8 xlate=plain props=C15
//@subst /let buf = unsafe \{\s*let ptr = self\.raw_ptr\(\)\.add\((.+?)\);\s*core::slice::from_raw_parts\(ptr, (.+?)\)\s*\}\s*;/ => let buf = self.mem_read(\1, \2);
//@contract
  requires self.inv(),
  ensures
    r.is_err() <==> offset as int + 1 > self.allocated as int, // [C15]
    r matches Err(e) ==> e matches Error::OutOfBounds { .. }, // [C15]
    r matches Ok(v) ==> v == self.mem@[offset as int], // [C15]
//@@end
//@@fn file=allocator.rs src=expanded scope="%SCOPE%" name=get_i8 xlate=plain props=C15
//@subst /let buf = unsafe \{\s*let ptr = self\.raw_ptr\(\)\.add\((.+?)\);\s*core::slice::from_raw_parts\(ptr, (.+?)\)\s*\}\s*;/ => let buf = self.mem_read(\1, \2);
//@contract
  requires self.inv(),
  ensures
    r.is_err() <==> offset as int + 1 > self.allocated as int, // [C15]
    r matches Ok(v) ==> v == self.mem@[offset as int] as i8, // [C15]
//@@end

//@@fn file=allocator.rs src=expanded scope="%SCOPE%" name=get_u8_unchecked xlate=plain props=C15
//@subst /let buf = unsafe \{\s*let ptr = self\.raw_ptr\(\)\.add\((.+?)\);\s*core::slice::from_raw_parts\(ptr, (.+?)\)\s*\}\s*;/ => let buf = self.mem_read(\1, \2);
//@contract
  requires self.inv(), offset as int + 1 <= self.allocated as int, // the caller's safety obligation
  ensures r == self.mem@[offset as int], // [C15]
//@@end
//@@fn file=allocator.rs src=expanded scope="%SCOPE%" name=get_i8_unchecked xlate=plain props=C15
//@subst /let buf = unsafe \{\s*let ptr = self\.raw_ptr\(\)\.add\((.+?)\);\s*core::slice::from_raw_parts\(ptr, (.+?)\)\s*\}\s*;/ => let buf = self.mem_read(\1, \2);
//@contract
  requires self.inv(), offset as int + 1 <= self.allocated as int, // the caller's safety obligation
  ensures r == self.mem@[offset as int] as i8, // [C15]
//@@end

//@@fn file=allocator.rs src=expanded scope="%SCOPE%" name=allocated_memory xlate=plain props=C15,C19
//@subst /unsafe \{\s*core::slice::from_raw_parts\(self\.raw_ptr\(\), (.+?)\)\s*\}/ => self.mem_slice(0, \1)
//@contract
  requires self.inv(),
  ensures r@ == self.mem@.subrange(0, self.allocated as int), r@.len() == self.allocated, // [C15]
//@@end
//@@fn file=allocator.rs src=expanded scope="%SCOPE%" name=data xlate=plain props=C15
//@subst /let ptr = self\.raw_ptr\(\)\.add\(offset\);/ => 
//@subst /core::slice::from_raw_parts\(ptr, (.+?)\)/ => self.mem_slice(offset, \1)
//@contract
  requires self.inv(),
  ensures r@ == self.mem@.subrange(self.data_offset as int, self.allocated as int), r@.len() == self.allocated - self.data_offset, // [C15]
//@@end
//@@fn file=allocator.rs src=expanded scope="%SCOPE%" name=memory xlate=plain props=C15
//@subst /unsafe \{\s*core::slice::from_raw_parts\(self\.raw_ptr\(\), (.+?)\)\s*\}/ => self.mem_slice(0, \1)
//@contract
  requires self.inv(),
  ensures r@ =~= self.mem@, r@.len() == self.cap, // [C15]
//@@end

//@@fn file=unsync.rs scope="impl Allocator for Arena {" name=reserved_slice xlate=plain props=C16,C19
//@subst /return &\[\];/ => return self.mem_slice(0, 0);
//@subst /unsafe \{\s*slice::from_raw_parts\(self\.ptr, self\.reserved\)\s*\}/ => self.mem_slice(0, self.reserved)
//@contract
  requires self.inv(),
  ensures r@ == self.mem@.subrange(0, self.reserved as int), r@.len() == self.reserved, // [C16 C19]
//@@end

//@@fn file=allocator.rs src=expanded scope="%SCOPE%" name=checksum xlate=plain props=C19
//@contract
  requires self.inv(),
  ensures r == cks.one_shot(self.mem@.subrange(self.reserved as int, self.allocated as int)), // [C19]
//@after 1 /let data = &allocated_memory\[reserved\.\.\];/
    proof { assert(data@ =~= self.mem@.subrange(self.reserved as int, self.allocated as int)); }
//@loop 1
      invariant
        page_size > 0, full_pages == total_len / page_size, total_len == data@.len(),
        hasher.fed() == data@.subrange(0, page_id * page_size as int),
        forall|s: Seq<u8>| hasher.digest_of(s) == cks.one_shot(s),
//@before 1 /let start = page_id \* page_size;/
      assert(page_id * page_size + page_size <= total_len) by (nonlinear_arith)
        requires page_id < full_pages, full_pages == total_len / page_size, page_size > 0;
//@after 1 /hasher\.update\(&data\[start\.\.end\]\);/
      assert(data@.subrange(0, start as int) + data@.subrange(start as int, end as int) == data@.subrange(0, end as int));
      assert((page_id + 1) * page_size == end) by (nonlinear_arith) requires end == page_id * page_size + page_size;
//@before 1 /if remaining_bytes > 0/
    proof {
      assert(full_pages * page_size <= total_len) by (nonlinear_arith) requires full_pages == total_len / page_size, page_size > 0;
      if remaining_bytes == 0 {
        assert(full_pages * page_size == total_len) by (nonlinear_arith) requires full_pages == total_len / page_size, total_len % page_size == 0, page_size > 0;
        assert(data@.subrange(0, total_len as int) == data@);
      }
    }
//@after 1 /hasher\.update\(&data\[start\.\.total_len\]\);/
      assert(data@.subrange(0, start as int) + data@.subrange(start as int, total_len as int) == data@);
//@@end

// ---- C09: mutable raw access panics on a read-only arena (documented), before handing anything out --------------------
//@@fn file=allocator.rs scope="%SCOPE%" name=get_pointer_mut xlate=plain props=C09
//@subst /-> \(r: \*mut u8\)/ => -> (r: MutPtr)
//@subst /self\.raw_mut_ptr\(\)\.add\(offset\)/ => self.mut_ptr_at(offset)
//@subst /return self\.raw_mut_ptr\(\);/ => return self.mut_ptr_at(0);
//@contract
  requires !self.ro, // [C09]
  ensures r.off@ == offset as int,
//@@end
//@@fn file=allocator.rs scope="%SCOPE%" name=get_pointer_mut rename=get_pointer_mut__ro xlate=plain props=C09
//@subst /-> \(r: \*mut u8\)/ => -> (r: MutPtr)
//@subst /self\.raw_mut_ptr\(\)\.add\(offset\)/ => self.mut_ptr_at(offset)
//@subst /return self\.raw_mut_ptr\(\);/ => return self.mut_ptr_at(0);
//@subst? /rt_panic\(\)/ => rt_panic_documented()
//@contract
  requires self.ro,
  ensures false, // [C09]
//@@end

// ---- raw accessors the handles are built on (their safety obligations are the preconditions) ---------------------------
//@@fn file=allocator.rs scope="%SCOPE%" name=get_pointer xlate=plain props=C15
//@subst /-> \(r: \*const u8\)/ => -> (r: MutPtr)
//@subst /self\.raw_ptr\(\)\.add\((.+?)\)/ => self.mut_ptr_at(\1)
//@subst /return self\.raw_ptr\(\);/ => return self.mut_ptr_at(0);
//@contract
  ensures r.off@ == offset as int, // [C15]
//@@end
//@@fn file=allocator.rs scope="%SCOPE%" name=get_bytes xlate=plain props=C15
//@subst /return &\[\];/ => return empty_slice();
//@subst /core::slice::from_raw_parts\((.+?), (.+?)\)/ => self.mem_slice_ptr(\1, \2)
//@contract
  requires offset as int + size as int <= self.mem@.len(), // the caller's safety obligation
  ensures r@ =~= self.mem@.subrange(offset as int, offset as int + size as int), // [C15]
//@@end
//@@fn file=allocator.rs scope="%SCOPE%" name=get_bytes_mut xlate=plain props=C15,C09
//@subst /-> \(r: &mut \[u8\]\)/ => -> (r: MutWin)
//@subst /return &mut \[\];/ => return MutWin::empty();
//@subst /core::slice::from_raw_parts_mut\((.+?), (.+?)\)/ => MutWin::at(\1, \2)
//@contract
  requires offset as int + size as int <= self.mem@.len(), size > 0 ==> !self.ro, // the caller's safety obligation; panics on a read-only arena
  ensures r.n@ == size as int, size > 0 ==> r.lo@ == offset as int, // [C15]
//@@end
