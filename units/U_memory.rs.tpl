// U_memory: Memory::clear (memory.rs) and the Header constructors of both flavours (C17: clear restores the pristine arena)
use vstd::prelude::*;
use vstd::layout::*;
use core::mem;
verus! {

global size_of usize == 8; // assumption: 64-bit target

//@@include spec_arith.rs
//@@include spec_mem.rs
//@@include lemmas_list.rs
//@@include spec_ops.rs
//@@include shim_unsync.rs

#[derive(Copy, Clone, PartialEq, Eq)]
pub enum Either<L, R> { Left(L), Right(R) }

//@@fn file=lib.rs name=encode_segment_node
//@contract
  ensures r == enc(size, next),
//@@end

//@@fn file=lib.rs name=align_offset props=C17
//@contract
  requires
    layout_ok::<T>(),
    current_offset as int + align_of::<T>() as int <= u32::MAX as int, // [C04]
  ensures
    r as int == align_up(current_offset as int, align_of::<T>() as int),
    r >= current_offset,
    (r as int - current_offset as int) < (align_of::<T>() as int),
    r as int % (align_of::<T>() as int) == 0,
//@before 1 /\(current_offset \+ alignment - 1\)/
  proof {
    let x = current_offset; let a = alignment;
    assert(a != 0 && a & sub(a,1) == 0 && add(x, sub(a,1)) >= x ==>
       ({ let r = add(x, sub(a, 1)) & !sub(a,1); r >= x && sub(r, x) < a && r % a == 0 })) by (bit_vector);
    lemma_align_up_unique(x as int, a as int, (add(x, sub(a, 1)) & !sub(a,1)) as int);
  }
//@@end

/// the sentinel word a fresh header starts with (SegmentNode::sentinel of both flavours, wrapper type dropped)
//@@fn file=unsync.rs scope="impl SegmentNode {" name=sentinel rename=sentinel_unsync xlate=plain props=C17,C10
//@subst /-> \(r: Self\)/ => -> (r: u64)
//@subst /Self\(UnsafeCell::new\((.+)\)\)/ => \1
//@contract
  ensures r == enc(SENTINEL_SEGMENT_NODE_SIZE, SENTINEL_SEGMENT_NODE_OFFSET), // [C17 C10]
//@@end
//@@fn file=sync.rs scope="impl SegmentNode {" name=sentinel rename=sentinel_sync xlate=plain props=C17,C10
//@subst /-> \(r: Self\)/ => -> (r: u64)
//@subst /Self \{\s*size_and_next: AtomicU64::new\((.+)\),\s*\}/ => \1
//@contract
  ensures r == enc(SENTINEL_SEGMENT_NODE_SIZE, SENTINEL_SEGMENT_NODE_OFFSET), // [C17 C10]
//@@end

impl Header {
/// Header::new of the unsync flavour (the sentinel field is held in the ghost memory model, see write_header)
//@@fn file=unsync.rs scope="impl super::super::sealed::Header for Header {" name=new xlate=plain props=C17,C16
//@subst /sentinel: SegmentNode::sentinel\(\),/ => 
//@contract
  ensures r.allocated == size, r.min_segment_size == min_segment_size, r.discarded == 0, // [C17 C16]
//@@end
}

pub struct HeaderSync { pub allocated: u32, pub min_segment_size: u32, pub discarded: u32 }
pub struct AtomicU32 {}
impl AtomicU32 { pub fn new(v: u32) -> (r: u32) ensures r == v { v } }
impl HeaderSync {
/// Header::new of the sync flavour (AtomicU32::new(v) is the value v)
//@@fn file=sync.rs scope="impl super::super::sealed::Header for Header {" name=new rename=new_sync xlate=plain props=C17,C16
//@subst /sentinel: SegmentNode::sentinel\(\),/ => 
//@contract
  ensures r.allocated == size, r.min_segment_size == min_segment_size, r.discarded == 0, // [C17 C16]
//@@end
}

impl St {
  /// `header_ptr.cast::<H>().write(h)` (unified layout) / `self.header_ptr = Either::Right(h)` (plain layout):
  /// the arena header becomes `h` with a fresh sentinel word; the data bytes are not touched
  #[verifier::external_body]
  pub fn write_header(&mut self, h: Header)
    requires old(self)@.writable, // [C09]
    ensures
      final(self).hdr == h, final(self).list == old(self).list,
      final(self)@ == (SV { allocated: h.allocated as int, discarded: h.discarded as int, min_seg: h.min_segment_size as int,
                             sentinel: enc(SENTINEL_SEGMENT_NODE_SIZE, SENTINEL_SEGMENT_NODE_OFFSET), ..old(self)@ }),
  { unimplemented!() }
}

#[derive(Copy, Clone, PartialEq, Eq)]
pub enum BackendKind { Vec, MmapMut, Mmap, Anon }
pub struct Memory {
  pub reserved: usize, pub cap: u32, pub data_offset: usize, pub unify: bool, pub ptr: *mut u8,
  pub header_ptr: Either<u32, Ghost<int>>,
  pub kind: BackendKind,          // which variant `self.backend` is
  pub file_offset: u64,           // MmapMut: `opts.offset` of the mapping
}

impl Memory {
//@@fn file=memory.rs scope="impl<R: RefCounter, PR: PathRefCounter, H: Header> Memory<R, PR, H> {" name=clear xlate=plain st=mut props=C17,C16,C08,C15
//@subst /self\.header\(\)\.load_min_segment_size\(\)/ => st.hdr.min_segment_size
//@subst /let header_ptr = self\.ptr\.add\(header_ptr_offset\);\s*let header = header_ptr\.cast::<H>\(\);\s*header\.write\((.+?)\);/ => st.write_header(\1);
//@subst /Either::Right\((H::new\(.+?\))\),/ => { st.write_header(\1); Either::Right(Ghost(0int)) },
//@subst /core::ptr::write_bytes\(\s*self\.ptr\.add\((.+?)\),\s*(.+?),\s*(.+?),?\s*\);/ => st.write_bytes(\1, \2, \3);
//@subst /\bH\b/ => Header
//@contract
  requires
    layout_ok::<Header>(), size_of::<Header>() <= 0x1000,
    old(self).reserved <= u32::MAX as usize - 0x4000_0000,
    old(st)@.writable, // [C09]
    old(st)@.bytes.len() == old(self).cap as int,
    old(self).data_offset as int == spec_data_offset::<Header>(old(self).reserved as int, old(self).unify), // [C16]
    old(self).data_offset as int <= old(self).cap as int,
    old(st)@.lo == old(self).data_offset as int,
  ensures
    final(self).data_offset == old(self).data_offset && final(self).reserved == old(self).reserved && final(self).cap == old(self).cap
      && final(self).unify == old(self).unify && final(self).ptr == old(self).ptr, // [C17 C16 C15]
    final(st)@.allocated == final(self).data_offset as int, // [C17 C15]
    final(st)@.discarded == 0, // [C17]
    final(st)@.min_seg == old(st)@.min_seg, // [C17]
    final(st)@.sentinel == enc(SENTINEL_SEGMENT_NODE_SIZE, SENTINEL_SEGMENT_NODE_OFFSET), // [C17 C10]
    all_zero(final(st)@.bytes, final(self).data_offset as int, final(self).cap as int), // [C17 C08]
    same_outside(old(st)@.bytes, final(st)@.bytes, old(self).data_offset as int, old(self).cap as int), // [C17 C16]
    final(st)@.writable == old(st)@.writable && final(st)@.lo == old(st)@.lo,
//@before 1 /let header_ptr_offset =/
//@after 1 /st\.write_bytes\(/
      proof { lemma_zero_written(old(st)@.bytes, data_offset as int, self.cap as int - data_offset as int);
              assert(Seq::new((self.cap as usize - data_offset) as nat, |i: int| 0u8) =~= zeros(self.cap as int - data_offset as int)); }
//@@end
}

// ---- Memory::truncate (C18): the real bodies, proved against the very contract text the Arena::truncate wrapper assumes ----
/// the replacement buffer being built (AlignedVec::new / anonymous map / re-mapped file); `copied` = how long a prefix of it
/// is known to carry the old arena's bytes
pub struct NewBuf { pub bytes: Ghost<Seq<u8>>, pub copied: Ghost<int> }
impl NewBuf {
  /// `AlignedVec::new::<H>(size, align)`: zeroed allocation (alloc_zeroed)
  #[verifier::external_body]
  pub fn zeroed(size: usize) -> (r: NewBuf) ensures r.bytes@ == zeros(size as int), r.copied@ == 0 { unimplemented!() }
  /// `opts.with_capacity(cap).to_mmap_options().map_anon()`: fresh zero pages
  #[verifier::external_body]
  pub fn map_anon(cap: u32) -> (r: Result<NewBuf, IoError>) ensures r matches Ok(n) ==> n.bytes@ == zeros(cap as int) && n.copied@ == 0 { unimplemented!() }
  #[verifier::external_body]
  pub fn as_ptr(&self) -> (r: *mut u8) { unimplemented!() }
  /// `ptr::copy_nonoverlapping(old_ptr, new_ptr, n)`
  #[verifier::external_body]
  pub fn copy_prefix_from(&mut self, st: &St, n: usize)
    requires n as int <= st@.bytes.len(), n as int <= old(self).bytes@.len(), // [C18]
    ensures
      final(self).bytes@ == st@.bytes.subrange(0, n as int) + old(self).bytes@.subrange(n as int, old(self).bytes@.len() as int),
      final(self).copied@ == n as int,
  { unimplemented!() }
  /// `new[..n].copy_from_slice(&old[..m])` (panics unless n == m)
  pub fn copy_range_from(&mut self, st: &St, n: usize, m: usize)
    requires n == m, n as int <= st@.bytes.len(), n as int <= old(self).bytes@.len(), // [C18]
    ensures
      final(self).bytes@ == st@.bytes.subrange(0, n as int) + old(self).bytes@.subrange(n as int, old(self).bytes@.len() as int),
      final(self).copied@ == n as int,
  { self.copy_prefix_from(st, n) }
}
impl St {
  /// `*aligned_vec = new` / `*buf = new`: the new buffer replaces the old one.  In the unified layout the header, the sentinel
  /// word and the reserved prefix live in the buffer below data_offset (== lo): they survive only if the copied prefix covers them
  #[verifier::external_body]
  pub fn install(&mut self, new: NewBuf)
    requires new.copied@ >= old(self)@.lo, // [C18]
    ensures
      final(self).hdr == old(self).hdr, final(self).list == old(self).list,
      final(self)@ == (SV { bytes: new.bytes@, ..old(self)@ }),
  { unimplemented!() }
}
/// the file behind a MmapMut backend (MAP_SHARED: the file holds what the mapping held), OS model, trusted
pub struct FileSt { pub content: Ghost<Seq<u8>>, pub mapped: Ghost<bool> }
impl FileSt {
  /// `let _ = Box::from_raw(*buf)`: drops (unmaps) the current mapping
  #[verifier::external_body]
  pub fn unmap(&mut self)
    ensures !final(self).mapped@, final(self).content == old(self).content,
  { unimplemented!() }
  /// `file.metadata()?.len()`
  #[verifier::external_body]
  pub fn file_len(&self) -> (r: Result<u64, IoError>)
    ensures r matches Ok(n) ==> n as int == self.content@.len(),
  { unimplemented!() }
  /// `file.set_len(n)?`: cuts the file or extends it with zeros
  #[verifier::external_body]
  pub fn set_len(&mut self, n: u64) -> (r: Result<(), IoError>)
    ensures
      final(self).mapped == old(self).mapped,
      r.is_ok() ==> final(self).content@ == (if n as int <= old(self).content@.len() { old(self).content@.subrange(0, n as int) } else { old(self).content@ + zeros(n as int - old(self).content@.len()) }),
  { unimplemented!() }
  /// `mmap_mut(opts.with_capacity(size).to_mmap_options(), file)?`: maps [offset, offset+size) of the file; touching a page
  /// of a mapping that lies beyond the end of the file faults, so the range must be inside the file
  #[verifier::external_body]
  pub fn map(&mut self, offset: u64, size: u32) -> (r: Result<NewBuf, IoError>)
    requires !old(self).mapped@, offset as int + size as int <= old(self).content@.len(), // [C18]
    ensures
      final(self).content == old(self).content,
      r matches Ok(m) ==> m.bytes@ == old(self).content@.subrange(offset as int, offset as int + size as int) && m.copied@ == size as int && final(self).mapped@,
  { unimplemented!() }
}

impl Memory {
//@@fn file=memory.rs scope="impl<R: RefCounter, PR: PathRefCounter, H: Header> Memory<R, PR, H> {" name=truncate nth=1 xlate=plain st=mut props=C18
//@subst /match &mut self\.backend \{\s*MemoryBackend::Vec\(aligned_vec, _\) => \{/ => { {
//@subst /let new = AlignedVec::new::<H>\((.+?), aligned_vec\.align\);/ => let mut new = NewBuf::zeroed(\1);
//@subst /let ptr = new\.ptr\.as_ptr\(\);/ => let ptr = new.as_ptr();
//@subst /ptr::copy_nonoverlapping\(aligned_vec\.ptr\.as_ptr\(\), ptr, (.+?)\);/ => new.copy_prefix_from(st, \1);
//@subst /\*aligned_vec = new;/ => st.install(new);
//@contract @memory_truncate
      final(self).cap as int == size as int, // [C18]
      final(self).reserved == old(self).reserved && final(self).data_offset == old(self).data_offset && final(self).unify == old(self).unify, // [C18]
//@after 1 /st\.install\(new\);/
      proof { assert(st@.bytes.subrange(0, allocated as int) =~= old(st)@.bytes.subrange(0, allocated as int)); }
//@@end
//@@fn file=memory.rs scope="impl<R: RefCounter, PR: PathRefCounter, H: Header> Memory<R, PR, H> {" name=truncate nth=2 rename=truncate__memmap xlate=plain st=mut props=C18
//@subst /st: &mut St, / => st: &mut St, os: &mut FileSt, 
//@subst /match &mut self\.backend \{/ => match self.kind {
//@subst /MemoryBackend::Vec\(aligned_vec, _\) => \{/ => BackendKind::Vec => {
//@subst /let new = AlignedVec::new::<H>\((.+?), aligned_vec\.align\);/ => let mut new = NewBuf::zeroed(\1);
//@subst /let ptr = new\.ptr\.as_ptr\(\);/ => let ptr = new.as_ptr();
//@subst /ptr::copy_nonoverlapping\(aligned_vec\.ptr\.as_ptr\(\), ptr, (.+?)\);/ => new.copy_prefix_from(st, \1);
//@subst /\*aligned_vec = new;/ => st.install(new);
//@subst /MemoryBackend::MmapMut \{\s*buf, file, opts, \.\.\s*\} => unsafe \{/ => BackendKind::MmapMut => unsafe {
//@subst /let _ = Box::from_raw\(\*buf\);/ => os.unmap();
//@subst /file\.metadata\(\)\?\.len\(\)/ => os.file_len()?
//@subst /file\.set_len\(/ => os.set_len(
//@subst /let mut mmap = mmap_mut\(opts\.with_capacity\((.+?)\)\.to_mmap_options\(\), file\)\?;/ => let mmap = os.map(opts.offset, \1)?;
//@subst /let ptr = mmap\.as_mut_ptr\(\);\s*\*buf = Box::into_raw\(Box::new\(mmap\)\);/ => let ptr = mmap.as_ptr(); st.install(mmap);
//@subst /opts\.offset/ => self.file_offset
//@subst /MemoryBackend::Mmap \{ \.\. \} => return Ok\(\(\)\),/ => BackendKind::Mmap => { return Ok(()); }
//@subst /MemoryBackend::AnonymousMmap \{ buf, opts \} => \{/ => BackendKind::Anon => {
//@subst /opts\s*\.with_capacity\((.+?)\)\s*\.to_mmap_options\(\)\s*\.map_anon\(\)\s*\.map\(\|mut new\| \{\s*new\[\.\.(.+?)\]\.copy_from_slice\(&buf\[\.\.(.+?)\]\);\s*self\.ptr = new\.as_mut_ptr\(\);\s*\*buf = new;\s*\}\)\?;/ => let mut new = NewBuf::map_anon(\1)?; new.copy_range_from(st, \2, \3); self.ptr = new.as_ptr(); st.install(new);
//@contract @memory_truncate_io
      r.is_ok() ==> final(self).cap as int == size as int, // [C18]
      final(self).reserved == old(self).reserved && final(self).data_offset == old(self).data_offset && final(self).unify == old(self).unify, // [C18]
  requires+ old(self).kind is Mmap ==> !old(st)@.writable, // a read-only mapping is never writable
  requires+ old(self).file_offset <= u64::MAX - 0x1_0000_0000,
  requires+ old(self).kind is MmapMut ==> old(os).mapped@ && old(self).file_offset as int + old(st)@.bytes.len() <= old(os).content@.len() && old(os).content@.subrange(old(self).file_offset as int, old(self).file_offset as int + old(st)@.bytes.len()) == old(st)@.bytes, // the shared mapping and the file agree
//@@end
}

// ---- C09: a read-only open must not ask the OS to create, append to or truncate the file ---------------------------
pub struct Options { pub create: bool, pub create_new: bool, pub read: bool, pub write: bool, pub append: bool, pub truncate: bool }
impl Options {
//@@fn file=options/open_options.rs scope="impl Options {" name=with_read xlate=plain props=C09
//@contract
  ensures r == (Options { read: read, ..self }), // [C09]
//@@end
//@@fn file=options/open_options.rs scope="impl Options {" name=with_write xlate=plain props=C09
//@contract
  ensures r == (Options { write: write, ..self }), // [C09]
//@@end
//@@fn file=options/open_options.rs scope="impl Options {" name=with_create xlate=plain props=C09
//@contract
  ensures r == (Options { create: val, ..self }), // [C09]
//@@end
//@@fn file=options/open_options.rs scope="impl Options {" name=with_create_new xlate=plain props=C09
//@contract
  ensures r == (Options { create_new: val, ..self }), // [C09]
//@@end
//@@fn file=options/open_options.rs scope="impl Options {" name=with_append xlate=plain props=C09
//@contract
  ensures r.append == append && r.truncate == self.truncate && r.create == self.create && r.create_new == self.create_new && r.read == self.read, // [C09]
//@@end
//@@fn file=options/open_options.rs scope="impl Options {" name=with_truncate xlate=plain props=C09
//@contract
  ensures r.truncate == truncate && r.append == self.append && r.create == self.create && r.create_new == self.create_new && r.read == self.read, // [C09]
//@@end
}

//@@frag file=memory.rs scope="impl<R: RefCounter, PR: PathRefCounter, H: Header> Memory<R, PR, H> {" fn=map_in from="/^\s*let opts = opts\s*$/" name=map_in__ro_open_flags params="opts: Options" ret=Options result=opts props=C09
//@contract
  ensures !r.create && !r.create_new && !r.append && !r.truncate && r.read, // [C09]
//@@end

// ---- C09: the writable open validates an existing file BEFORE it writes to it ---------------------------------------
/// what the writable open does to the mapped file (trusted shim): any write sets `wrote`
pub struct Os { pub wrote: Ghost<bool>, pub valid: Ghost<bool> }
impl Os {
  #[verifier::external_body]
  pub fn file_write(&mut self, off: usize, n: usize)
    ensures final(self).wrote@ == true, final(self).valid == old(self).valid,
  { unimplemented!() }
  /// `(*header_ptr).load_allocated()`: the cursor stored in the file (any value: the file is not validated yet)
  #[verifier::external_body]
  pub fn stored_cursor(&self) -> (r: usize) { unimplemented!() }
  /// `sanity_check(Some(freelist), magic_version, &mmap[reserved..reserved + 8])`: Ok iff the identification bytes match
  #[verifier::external_body]
  pub fn sanity_check(&self, freelist: Freelist, magic_version: u16) -> (r: Result<Freelist, IoError>)
    ensures r.is_ok() == self.valid@,
  { unimplemented!() }
}
pub const CURRENT_VERSION: u16 = 0;

//@@frag file=memory.rs scope="impl<R: RefCounter, PR: PathRefCounter, H: Header> Memory<R, PR, H> {" fn=map_mut_in from="/let \(version, magic_version\) = if create_new/" name=map_mut_in__init_or_validate params="st: &mut Os, create_new: bool, cap: usize, reserved: usize, data_offset: usize, min_segment_size: u32, freelist: Freelist, magic_version: u16" ret="Result<(u16, u16), IoError>" result="Ok((version, magic_version))" props=C09
//@subst /ptr::write_bytes\(ptr, 0, cap\);/ => st.file_write(0, cap);
//@subst /super::write_sanity\(\s*freelist as u8,\s*magic_version,\s*slice::from_raw_parts_mut\(ptr\.add\(reserved\), mem::align_of::<H>\(\)\),?\s*\);/ => st.file_write(reserved, 8);
//@subst /header_ptr\.write\(Header::new\(data_offset as u32, min_segment_size\)\);/ => st.file_write(data_offset, 0);
//@subst /let allocated = \(\*header_ptr\)\.load_allocated\(\) as usize;/ => let allocated = st.stored_cursor();
//@subst /ptr::write_bytes\(ptr\.add\(allocated\), 0, cap - allocated as usize\);/ => st.file_write(allocated, cap - allocated as usize);
//@subst /super::sanity_check\(\s*Some\(freelist\),\s*magic_version,\s*&mmap\[reserved\.\.reserved \+ mem::align_of::<H>\(\)\],?\s*\)\?;/ => st.sanity_check(freelist, magic_version)?;
//@contract
  requires !old(st).wrote@,
  ensures
    !create_new && !old(st).valid@ ==> r.is_err() && !final(st).wrote@, // [C09]
    !create_new && old(st).valid@ ==> r.is_ok(), // [C09]
    create_new ==> r.is_ok(), // [C09]
//@@end

// ---- C09: a file too small to contain the header prefix is refused before anything else happens ------------------------
pub struct OffsetOpts { pub offset: u64 }
pub fn invalid_input(msg: &'static str) -> IoError { IoError {} }
pub fn sub_or_zero(a: u64, b: u64) -> (r: u64) ensures r == (if a >= b { a - b } else { 0 }) { if a >= b { a - b } else { 0 } }

//@@fn file=memory.rs name=header_meta props=C09,C16
//@contract
  requires
    layout_ok::<H>(), size_of::<H>() <= 0x1000_0000,
    reserved <= u32::MAX as usize - 0x2000_0000,
  ensures
    r.1 as int == spec_data_offset::<H>(reserved as int, unify), // [C16 C09]
    r.0 as int == spec_header_offset::<H>(reserved as int, unify), // [C16]
//@@end

//@@frag file=memory.rs scope="impl<R: RefCounter, PR: PathRefCounter, H: Header> Memory<R, PR, H> {" fn=map_mut_in from="/^\s*if !create_new \{\s*$/" name=map_mut_in__size_check params="create_new: bool, file_size: u64, opts: OffsetOpts, reserved: usize" ret="Result<(), IoError>" result="Ok(())" props=C09
//@subst /(\w+)\.checked_sub\((.+?)\)\.unwrap_or_default\(\)/ => sub_or_zero(\1, \2)
//@subst /\bH\b/ => Header
//@contract
  requires layout_ok::<Header>(), size_of::<Header>() <= 0x1000, reserved <= u32::MAX as usize - 0x4000_0000,
  ensures
    !create_new ==> (r.is_err() <==> (if file_size >= opts.offset { file_size as int - opts.offset as int } else { 0int }) < spec_data_offset::<Header>(reserved as int, true)), // [C09]
    create_new ==> r.is_ok(),
//@@end

//@@frag file=memory.rs scope="impl<R: RefCounter, PR: PathRefCounter, H: Header> Memory<R, PR, H> {" fn=map_in from="/let \(_, prefix_size\) = header_meta::<H>\(reserved as usize, true\);/" stmts=2 name=map_in__size_check params="size: u64, opts: OffsetOpts, reserved: u32" ret="Result<(), IoError>" result="Ok(())" props=C09
//@subst /(\w+)\.checked_sub\((.+?)\)\.unwrap_or_default\(\)/ => sub_or_zero(\1, \2)
//@subst /\bH\b/ => Header
//@contract
  requires layout_ok::<Header>(), size_of::<Header>() <= 0x1000, reserved <= u32::MAX - 0x4000_0000,
  ensures
    r.is_err() <==> (if size >= opts.offset { size as int - opts.offset as int } else { 0int }) < spec_data_offset::<Header>(reserved as int, true), // [C09]
//@@end

} // verus!
fn main() {}
