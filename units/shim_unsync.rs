// ---- trusted shim, unsync flavour (hand-written).  Every external_body here is an ASSUMPTION -------
pub enum Error { InsufficientSpace { requested: u32, available: u32 }, ReadOnly, OutOfBounds { offset: usize, allocated: usize } }

pub struct Header { pub allocated: u32, pub min_segment_size: u32, pub discarded: u32 }
pub ghost struct Mem { pub sentinel: u64, pub bytes: Seq<u8> }
pub struct St {
  pub hdr: Header,
  pub mem: Ghost<Mem>,
  pub list: Ghost<Seq<Node>>,
  pub writable: Ghost<bool>,
  pub lo: Ghost<int>,
}

impl View for St {
  type V = SV;
  open spec fn view(&self) -> SV {
    SV {
      allocated: self.hdr.allocated as int, discarded: self.hdr.discarded as int, min_seg: self.hdr.min_segment_size as int,
      list: self.list@, sentinel: self.mem@.sentinel, bytes: self.mem@.bytes, writable: self.writable@, lo: self.lo@,
    }
  }
}

impl St {
  /// `*cell.as_inner_ref()`: read of an 8-byte node word (or the sentinel word in the header)
  #[verifier::external_body]
  pub fn load(&self, c: CellRef) -> (r: &u64)
    requires c matches CellRef::Node(o) ==> o as int % 8 == 0 && self@.lo <= o as int && o as int + 8 <= self@.bytes.len(), // [C01 C04]
    ensures *r == word(self@, c),
  { unimplemented!() }

  /// `*cell.as_inner_ref_mut() = v`: write of an 8-byte node word (or the sentinel word)
  #[verifier::external_body]
  pub fn store(&mut self, c: CellRef, v: u64)
    requires
      old(self)@.writable, // [C09]
      c matches CellRef::Node(o) ==> o as int % 8 == 0 && old(self)@.lo <= o as int && o as int + 8 <= old(self)@.bytes.len(), // [C01 C04 C16]
    ensures
      final(self).hdr == old(self).hdr, final(self).list == old(self).list,
      final(self)@ == (match c {
        CellRef::Sentinel => SV { sentinel: v, ..old(self)@ },
        CellRef::Node(o) => SV { bytes: splice(old(self)@.bytes, o as int, b64(v)), ..old(self)@ },
      }),
  { unimplemented!() }

  /// `ptr::write_bytes(base.add(off), v, n)`
  #[verifier::external_body]
  pub fn write_bytes(&mut self, off: usize, v: u8, n: usize)
    requires
      old(self)@.writable, // [C09]
      old(self)@.lo <= off as int, // [C01 C16]
      off as int + n as int <= old(self)@.bytes.len(), // [C01 C04]
    ensures
      final(self).hdr == old(self).hdr, final(self).list == old(self).list,
      final(self)@ == (SV { bytes: splice(old(self)@.bytes, off as int, Seq::new(n as nat, |i: int| v)), ..old(self)@ }),
  { unimplemented!() }
}

impl St {
  /// no-op inserted by rule R3b before every write to a header field: the header is only writable if the arena is
  pub fn touch_hdr(&self)
    requires self@.writable, // [C09]
  {}
}

/// `panic!` / failed `assert!` (rule R19): unreachable unless a contract says the panic is documented behaviour
#[verifier::external_body]
pub fn rt_panic()
  requires false, // [C04 C09]
  ensures false,
{ panic!() }
/// documented panic (only used by the `*__ro` instantiations): never returns
#[verifier::external_body]
pub fn rt_panic_documented()
  ensures false,
{ panic!() }

pub struct Arena {
  pub ptr: *mut u8, pub cap: u32, pub data_offset: u32, pub ro: bool, pub freelist: Freelist,
  pub max_retries: u8, pub reserved: usize, pub page_size: u32,
}
impl Arena {
  pub open spec fn av(&self) -> AV {
    AV { cap: self.cap as int, data_offset: self.data_offset as int, ro: self.ro, freelist: self.freelist }
  }
}

impl Arena {
  /// `(&mut *self.inner.as_ptr()).clear()`: Memory::clear, proved against this very contract in U_memory (C17);
  /// Arena::data_offset / cap are the values cached from the Memory at construction
  #[verifier::external_body]
  pub fn memory_clear(&self, st: &mut St)
    requires
      old(st)@.writable, // [C09]
      old(st)@.bytes.len() == self.cap as int, old(st)@.lo == self.data_offset as int, self.data_offset <= self.cap,
    ensures
      final(st).list == old(st).list,
      final(st)@.allocated == self.data_offset as int, final(st)@.discarded == 0, final(st)@.min_seg == old(st)@.min_seg,
      final(st)@.sentinel == enc(SENTINEL_SEGMENT_NODE_SIZE, SENTINEL_SEGMENT_NODE_OFFSET),
      all_zero(final(st)@.bytes, self.data_offset as int, self.cap as int),
      same_outside(old(st)@.bytes, final(st)@.bytes, self.data_offset as int, self.cap as int),
      final(st)@.writable == old(st)@.writable && final(st)@.lo == old(st)@.lo,
  { unimplemented!() }
}

/// stands for `&mut Memory` obtained from `self.inner.as_mut()` in Arena::truncate
pub struct MemTok {}
pub struct IoError {}
impl MemTok {
  pub fn of(a: &Arena) -> (r: MemTok) { MemTok {} }
  /// Memory::truncate(allocated, size) as the Arena::truncate wrapper sees it.  The contract text is the file the REAL
  /// Memory::truncate is proved against in U_memory (units/contracts/memory_truncate*.contract): assumed here, proved there.
  #[verifier::external_body]
  pub fn truncate(&self, st: &mut St, allocated: usize, size: usize)
//@@include contracts/memory_truncate.contract
  { unimplemented!() }
  /// memmap variant: may fail with an I/O error (the state after an I/O failure is not specified)
  #[verifier::external_body]
  pub fn truncate_io(&self, st: &mut St, allocated: usize, size: usize) -> (r: Result<(), IoError>)
//@@include contracts/memory_truncate_io.contract
  { unimplemented!() }
  #[verifier::external_body]
  pub fn as_mut_ptr(&self, st: &St) -> (r: *mut u8) { unimplemented!() }
  #[verifier::external_body]
  pub fn cap(&self, st: &St) -> (r: u32)
    requires st@.bytes.len() <= u32::MAX as int,
    ensures r as int == st@.bytes.len(),
  { unimplemented!() }
}
pub fn io_read_only_error() -> IoError { IoError {} }
