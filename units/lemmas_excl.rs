// ---- C01 at the level of histories (hand-written; spec and proof only) ---------------------------------------------
// The per-step clauses proved for every allocation / release function (meta_ok, kept_in_free, free_shrinks, free_grows,
// frame_ok) imply, by induction over any single-threaded history, that live regions stay pairwise disjoint, stay clear
// of the free space and of the prefix below data_offset, and that their bytes are not changed by the arena.

/// a live region: the kept byte range [lo, hi) of a handle (hull of its release extent and its accessible range)
pub type Region = (int, int);
pub open spec fn in_region(r: Region, b: int) -> bool { r.0 <= b < r.1 }
pub open spec fn regions_apart(r: Region, q: Region) -> bool { r.1 <= q.0 || q.1 <= r.0 }

/// every byte of [lo, hi) is free in state s
pub open spec fn kept_in_free(s: SV, lo: int, hi: int) -> bool {
  forall|b: int| lo <= b < hi ==> #[trigger] in_free(s, b)
}

/// history invariant: live regions are inside the data area, pairwise disjoint, and disjoint from the free space
pub open spec fn live_inv(a: AV, s: SV, live: Seq<Region>) -> bool {
  &&& forall|i: int| 0 <= i < live.len() ==> a.data_offset <= (#[trigger] live[i]).0 && live[i].0 < live[i].1 && live[i].1 <= s.allocated   // live regions are non-empty (zero-sized handles occupy nothing)
  &&& forall|i: int, j: int| 0 <= i < j < live.len() ==> regions_apart(#[trigger] live[i], #[trigger] live[j])
  &&& forall|i: int, b: int| 0 <= i < live.len() && in_region(#[trigger] live[i], b) ==> !#[trigger] in_free(s, b)
}

/// bytes of every live region are the same in s0 and s1
pub open spec fn live_untouched(s0: SV, s1: SV, live: Seq<Region>) -> bool {
  forall|i: int, b: int| 0 <= i < live.len() && in_region(#[trigger] live[i], b) && 0 <= b < s0.bytes.len() ==> #[trigger] s1.bytes[b] == s0.bytes[b]
}

pub proof fn lemma_in_list_witness(l: Seq<Node>, lo: int, hi: int, b: int)
  requires clear_of_list(l, lo, hi), lo <= b < hi
  ensures !in_list(l, b)
{
  if in_list(l, b) {
    let k = choose|k: int| 0 <= k < l.len() && in_node(#[trigger] l[k], b);
    assert(node_end(l[k]) <= lo || hi <= l[k].0 as int);
  }
}

/// ALLOCATION STEP: the new region k = [lo, hi) joins the live set
pub proof fn lemma_exclusive_alloc(a: AV, s0: SV, s1: SV, live: Seq<Region>, lo: int, hi: int)
  requires
    live_inv(a, s0, live),
    a.data_offset <= lo < hi <= s1.allocated, clear_of_list(s1.list, lo, hi),     // meta_ok, non-empty region
    kept_in_free(s0, lo, hi),                                                            // the region came out of free space
    free_shrinks(s0, s1),
    frame_ok(s0.list, s0.bytes, s1.bytes, s0.allocated, a.cap), s0.bytes.len() == a.cap,
  ensures
    live_inv(a, s1, live.push((lo, hi))),
    live_untouched(s0, s1, live),
{
  let live2 = live.push((lo, hi));
  assert forall|i: int| 0 <= i < live2.len() implies a.data_offset <= (#[trigger] live2[i]).0 && live2[i].0 < live2[i].1 && live2[i].1 <= s1.allocated by {
    if i < live.len() { assert(live2[i] == live[i]); }
  }
  assert forall|i: int, j: int| 0 <= i < j < live2.len() implies regions_apart(#[trigger] live2[i], #[trigger] live2[j]) by {
    if j < live.len() { assert(live2[i] == live[i] && live2[j] == live[j]); }
    else {
      assert(live2[i] == live[i]);
      // a common byte would be free in s0 (new region) and not free in s0 (live region)
      if !regions_apart(live[i], (lo, hi)) {
        let b = if live[i].0 >= lo { live[i].0 } else { lo };
        assert(in_region(live[i], b) && lo <= b < hi);
        assert(in_free(s0, b));
      }
    }
  }
  assert forall|i: int, b: int| 0 <= i < live2.len() && in_region(#[trigger] live2[i], b) implies !#[trigger] in_free(s1, b) by {
    if i < live.len() {
      assert(live2[i] == live[i]);
      assert(!in_free(s0, b));
      if in_list(s1.list, b) { assert(in_list(s0.list, b) || b >= s0.allocated); }
    } else {
      lemma_in_list_witness(s1.list, lo, hi, b);
    }
  }
  assert forall|i: int, b: int| 0 <= i < live.len() && in_region(#[trigger] live[i], b) && 0 <= b < s0.bytes.len() implies #[trigger] s1.bytes[b] == s0.bytes[b] by {
    assert(!in_free(s0, b));
    if s1.bytes[b] != s0.bytes[b] { assert(s0.allocated <= b < a.cap || in_list(s0.list, b)); }
  }
}

/// RELEASE STEP: live region x is released with an extent [elo, ehi) inside it
pub proof fn lemma_exclusive_release(a: AV, s0: SV, s1: SV, live: Seq<Region>, x: int, elo: int, ehi: int)
  requires
    live_inv(a, s0, live), 0 <= x < live.len(),
    live[x].0 <= elo && ehi <= live[x].1,
    free_grows(s0, s1, elo, ehi), s1.allocated <= s0.allocated,
    frame_ok(s0.list, s0.bytes, s1.bytes, elo, ehi),
    forall|i: int| 0 <= i < live.len() && i != x ==> (#[trigger] live[i]).1 <= s1.allocated,   // the cursor only moves back over the released region
  ensures
    live_inv(a, s1, live.remove(x)),
    live_untouched(s0, s1, live.remove(x)),
{
  let live2 = live.remove(x);
  assert forall|i: int| 0 <= i < live2.len() implies a.data_offset <= (#[trigger] live2[i]).0 && live2[i].0 < live2[i].1 && live2[i].1 <= s1.allocated by {
    let ii = if i < x { i } else { i + 1 };
    assert(live2[i] == live[ii]);
  }
  assert forall|i: int, j: int| 0 <= i < j < live2.len() implies regions_apart(#[trigger] live2[i], #[trigger] live2[j]) by {
    let ii = if i < x { i } else { i + 1 }; let jj = if j < x { j } else { j + 1 };
    assert(live2[i] == live[ii] && live2[j] == live[jj]);
    assert(regions_apart(live[ii], live[jj]));
  }
  assert forall|i: int, b: int| 0 <= i < live2.len() && in_region(#[trigger] live2[i], b) implies !#[trigger] in_free(s1, b) by {
    let ii = if i < x { i } else { i + 1 };
    assert(live2[i] == live[ii]);
    assert(!in_free(s0, b));
    if in_free(s1, b) {
      assert(in_free(s0, b) || elo <= b < ehi);
      // b in the released extent would put it in live[x] too
      if ii < x { assert(regions_apart(live[ii], live[x])); } else { assert(regions_apart(live[x], live[ii])); }
      assert(in_region(live[x], b));
    }
  }
  assert forall|i: int, b: int| 0 <= i < live2.len() && in_region(#[trigger] live2[i], b) && 0 <= b < s0.bytes.len() implies #[trigger] s1.bytes[b] == s0.bytes[b] by {
    let ii = if i < x { i } else { i + 1 };
    assert(live2[i] == live[ii]);
    assert(!in_free(s0, b));
    if s1.bytes[b] != s0.bytes[b] {
      assert(elo <= b < ehi || in_list(s0.list, b));
      if ii < x { assert(regions_apart(live[ii], live[x])); } else { assert(regions_apart(live[x], live[ii])); }
      assert(in_region(live[x], b));
    }
  }
}

pub open spec fn max_int(x: int, y: int) -> int { if x >= y { x } else { y } }

/// the [C01] clauses of the allocation contracts are exactly what the allocation step of the history argument needs
pub proof fn lemma_c01_alloc_step(a: AV, s0: SV, s1: SV, live: Seq<Region>, mo: int, ms: int, po: int, ps: int)
  requires
    live_inv(a, s0, live), s0.bytes.len() == a.cap, ms >= 0, ps >= 0, ms + ps > 0,
    meta_ok(a, s1, mo, ms, po, ps), kept_in_free(s0, mo, mo + ms), kept_in_free(s0, mo, po + ps),
    free_shrinks(s0, s1), frame_ok(s0.list, s0.bytes, s1.bytes, s0.allocated, a.cap),
  ensures
    live_inv(a, s1, live.push((mo, max_int(mo + ms, po + ps)))),
    live_untouched(s0, s1, live),
{
  let hi = max_int(mo + ms, po + ps);
  assert(clear_of_list(s1.list, mo, hi));
  assert(kept_in_free(s0, mo, hi));
  lemma_exclusive_alloc(a, s0, s1, live, mo, hi);
}

/// ... and the clauses of `dealloc` are what the release step needs (extent = the handle's buffer extent)
pub proof fn lemma_c01_release_step(a: AV, s0: SV, s1: SV, live: Seq<Region>, x: int, offset: int, size: int, r: bool)
  requires
    wf(a, s0), live_inv(a, s0, live), 0 <= x < live.len(), size > 0,
    live[x].0 <= offset && offset + size <= live[x].1,
    dealloc_post(a, s0, s1, offset, size, r), free_grows(s0, s1, offset, offset + size),
    frame_ok(s0.list, s0.bytes, s1.bytes, offset, offset + size),
  ensures
    live_inv(a, s1, live.remove(x)),
    live_untouched(s0, s1, live.remove(x)),
{
  assert forall|i: int| 0 <= i < live.len() && i != x implies (#[trigger] live[i]).1 <= s1.allocated by {
    assert(a.data_offset <= live[i].0 && live[i].1 <= s0.allocated);
    assert(a.data_offset <= live[x].0 && live[x].1 <= s0.allocated);
    if s0.allocated == offset + size {
      // topmost: the released region ends at the cursor, every other live region lies below it
      assert(s1.allocated == offset);
      assert(live[x].1 == s0.allocated && live[x].0 <= offset);
      if i < x { assert(regions_apart(live[i], live[x])); } else { assert(regions_apart(live[x], live[i])); }
      if live[i].0 >= live[i].1 {
        assert(live[i].1 <= live[i].0);
        // an empty region: bound it by its own start, which is below the cursor; make it harmless
      }
    } else {
      assert(s1.allocated == s0.allocated);
    }
  }
  lemma_exclusive_release(a, s0, s1, live, x, offset, offset + size);
}
