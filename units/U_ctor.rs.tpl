// U_ctor: construction of a Vec-backed arena (Memory::alloc) and the layout helpers it uses (C16): where the sanity
// bytes and the header go, what data_offset() is, which options end up in which accessor.
use vstd::prelude::*;
use vstd::layout::*;
use core::mem;
verus! {

global size_of usize == 8; // assumption: 64-bit target

//@@include spec_arith.rs

pub const CURRENT_VERSION: u16 = 0;
pub enum Error { InsufficientSpace { requested: u32, available: u32 }, ReadOnly, OutOfBounds { offset: usize, allocated: usize } }
#[derive(Copy, Clone, PartialEq, Eq)]
pub enum Freelist { None, Optimistic, Pessimistic }
pub open spec fn spec_freelist_u8(f: Freelist) -> u8 { match f { Freelist::None => 0u8, Freelist::Optimistic => 1u8, Freelist::Pessimistic => 2u8 } }
/// `freelist as u8` (#[repr(u8)] None = 0, Optimistic = 1, Pessimistic = 2)
pub fn freelist_u8(f: Freelist) -> (r: u8) ensures r == spec_freelist_u8(f) { match f { Freelist::None => 0, Freelist::Optimistic => 1, Freelist::Pessimistic => 2 } }
#[derive(Copy, Clone, PartialEq, Eq)]
pub enum Either<L, R> { Left(L), Right(R) }
#[derive(Copy, Clone, PartialEq, Eq)]
pub struct Header { pub allocated: u32, pub min_segment_size: u32, pub discarded: u32 }

/// ghost record of what the constructor did to the fresh buffer (trusted shim below)
pub struct St {
  pub buf_cap: Ghost<int>, pub zeroed: Ghost<int>, pub buf_align: Ghost<int>,   // alignment the buffer was requested with
  pub sanity_at: Ghost<Option<(int, int, u8, u16)>>,      // (offset, len, freelist byte, magic version)
  pub header_at: Ghost<Option<(int, Header)>>,
}
pub struct AlignedVec { pub cap: usize, pub align: usize }
impl AlignedVec {
  /// `AlignedVec::new::<H>(capacity, align)`: fresh zeroed allocation (alloc_zeroed), trusted
  #[verifier::external_body]
  pub fn new_shim(st: &mut St, capacity: usize, align: usize) -> (r: AlignedVec)
    ensures r.cap == capacity, final(st).buf_cap@ == capacity as int, final(st).zeroed@ == 0, final(st).sanity_at@ is None, final(st).header_at@ is None,
      final(st).buf_align@ == align as int,
  { unimplemented!() }
  #[verifier::external_body]
  pub fn as_mut_ptr(&mut self) -> (r: *mut u8) ensures *final(self) == *old(self) { unimplemented!() }
}
impl St {
  /// `ptr::write_bytes(ptr, v, n)`: only a zero fill counts as zeroing
  #[verifier::external_body]
  pub fn fill_all(&mut self, v: u8, n: usize)
    requires n as int <= old(self).buf_cap@, // [C16]
    ensures final(self).zeroed@ == (if v == 0 { n as int } else { 0 }), final(self).buf_cap == old(self).buf_cap, final(self).sanity_at == old(self).sanity_at, final(self).header_at == old(self).header_at,
      final(self).buf_align == old(self).buf_align,
  { unimplemented!() }
  /// `write_sanity(freelist, magic_version, slice::from_raw_parts_mut(ptr.add(off), len))`
  #[verifier::external_body]
  pub fn write_sanity_at(&mut self, off: usize, len: usize, freelist: u8, magic_version: u16)
    requires off as int + len as int <= old(self).buf_cap@, len >= 8, // [C16 C09]
    ensures final(self).sanity_at@ == Some((off as int, len as int, freelist, magic_version)),
      final(self).buf_cap == old(self).buf_cap, final(self).zeroed == old(self).zeroed, final(self).header_at == old(self).header_at, final(self).buf_align == old(self).buf_align,
  { unimplemented!() }
  /// `ptr.add(off).cast::<H>().write(h)`
  #[verifier::external_body]
  pub fn write_header_at(&mut self, off: usize, h: Header)
    requires off as int + size_of::<Header>() as int <= old(self).buf_cap@, off as int % (align_of::<Header>() as int) == 0, // [C16]
    ensures final(self).header_at@ == Some((off as int, h)),
      final(self).buf_cap == old(self).buf_cap, final(self).zeroed == old(self).zeroed, final(self).sanity_at == old(self).sanity_at, final(self).buf_align == old(self).buf_align,
  { unimplemented!() }
}
pub struct RefTok { pub n: usize }
impl RefTok { pub fn new(n: usize) -> (r: RefTok) ensures r.n == n { RefTok { n } } }
#[derive(Copy, Clone, PartialEq, Eq)]
pub struct FlagTok { pub bits: u8 }
/// bitflags `MemoryFlags` (ON_DISK = 0b01, MMAP = 0b10)
impl FlagTok {
  pub fn empty() -> (r: FlagTok) ensures r.bits == 0 { FlagTok { bits: 0 } }
  pub fn contains(&self, other: FlagTok) -> (r: bool) ensures r == (self.bits & other.bits == other.bits) { self.bits & other.bits == other.bits }
}
pub const ON_DISK: FlagTok = FlagTok { bits: 1 };
pub type MemoryFlags = FlagTok;
pub struct BackendTok {}
impl BackendTok { pub fn vec(v: AlignedVec) -> BackendTok { BackendTok {} } }

//@@fn file=lib.rs name=align_offset props=C16
//@contract
  requires
    layout_ok::<T>(),
    current_offset as int + align_of::<T>() as int <= u32::MAX as int,
  ensures
    r as int == align_up(current_offset as int, align_of::<T>() as int),
    r >= current_offset,
    (r as int - current_offset as int) < (align_of::<T>() as int),
    r as int % (align_of::<T>() as int) == 0,
//@before 1 /\(current_offset \+ alignment - 1\)/
  proof {
    let x = current_offset; let a = alignment;
    assert(a != 0 && a & sub(a,1) == 0 && add(x, sub(a,1)) >= x ==>
       ({ let r = add(x, sub(a, 1)) & !sub(a,1); r >= x && sub(r, x) < a && r % a == 0 })) by (bit_vector);
    lemma_align_up_unique(x as int, a as int, (add(x, sub(a, 1)) & !sub(a,1)) as int);
  }
//@@end

//@@fn file=memory.rs name=header_meta props=C16
//@contract
  requires
    layout_ok::<H>(), size_of::<H>() <= 0x1000_0000,
    reserved <= u32::MAX as usize - 0x2000_0000,
  ensures
    r.1 as int == spec_data_offset::<H>(reserved as int, unify), // [C16]
    r.0 as int == spec_header_offset::<H>(reserved as int, unify), // [C16]
    unify ==> r.0 as int % (align_of::<H>() as int) == 0 && r.0 as int >= reserved as int + align_of::<H>() as int, // [C16]
//@before 1 /\(offset, offset \+ mem::size_of::<H>\(\)\)/
    proof { lemma_mod_plus_self(align_up(reserved as int, align_of::<H>() as int), align_of::<H>() as int); }
//@@end

//@@fn file=memory.rs name=check_capacity props=C16,C09
//@contract
  requires
    layout_ok::<H>(), size_of::<H>() <= 0x1000_0000,
    reserved <= u32::MAX as usize - 0x2000_0000,
  ensures
    r.is_err() <==> spec_data_offset::<H>(reserved as int, unify) > capacity as int, // [C16 C09]
    r matches Ok(o) ==> o as int == spec_header_offset::<H>(reserved as int, unify)
       && (unify ==> o as int % (align_of::<H>() as int) == 0 && o as int >= reserved as int + align_of::<H>() as int), // [C16]
    r matches Err(e) ==> e matches Error::InsufficientSpace { .. }, // [C16]
//@@end

impl Header {
//@@fn file=unsync.rs scope="impl super::super::sealed::Header for Header {" name=new xlate=plain props=C16
//@subst /sentinel: SegmentNode::sentinel\(\),/ => 
//@contract
  ensures r.allocated == size, r.min_segment_size == min_segment_size, r.discarded == 0, // [C16]
//@@end
}

#[derive(Copy, Clone)]
pub struct Options {
  pub reserved: u32, pub maximum_alignment: usize, pub capacity: Option<u32>, pub minimum_segment_size: u32,
  pub maximum_retries: u8, pub unify: bool, pub magic_version: u16, pub freelist: Freelist,
}
impl Options {
//@@fn file=options.rs scope="impl Options {" name=reserved xlate=plain props=C16
//@contract
  ensures r == self.reserved, // [C16]
//@@end
//@@fn file=options.rs scope="impl Options {" name=maximum_alignment xlate=plain props=C16
//@contract
  ensures r == self.maximum_alignment, // [C16]
//@@end
//@@fn file=options.rs scope="impl Options {" name=capacity xlate=plain props=C16
//@contract
  ensures r == (match self.capacity { Some(c) => c, None => 0u32 }), // [C16]
//@@end
//@@fn file=options.rs scope="impl Options {" name=minimum_segment_size xlate=plain props=C16
//@contract
  ensures r == self.minimum_segment_size, // [C16]
//@@end
//@@fn file=options.rs scope="impl Options {" name=maximum_retries xlate=plain props=C16
//@contract
  ensures r == self.maximum_retries, // [C16]
//@@end
//@@fn file=options.rs scope="impl Options {" name=unify xlate=plain props=C16
//@contract
  ensures r == self.unify, // [C16]
//@@end
//@@fn file=options.rs scope="impl Options {" name=magic_version xlate=plain props=C16
//@contract
  ensures r == self.magic_version, // [C16]
//@@end
//@@fn file=options.rs scope="impl Options {" name=freelist xlate=plain props=C16
//@contract
  ensures r == self.freelist, // [C16]
//@@end
//@@fn file=options.rs scope="impl Options {" name=data_offset_in xlate=plain props=C16
//@contract
  requires
    layout_ok::<H>(), size_of::<H>() <= 0x1000_0000,
    reserved <= u32::MAX as usize - 0x2000_0000,
  ensures
    r as int == spec_data_offset::<H>(reserved as int, unify), // [C16]
//@@end
}

pub struct Memory {
  pub cap: u32, pub reserved: usize, pub refs: RefTok, pub flag: FlagTok, pub ptr: *mut u8, pub header_ptr: Either<u32, Header>,
  pub backend: BackendTok, pub data_offset: usize, pub unify: bool, pub magic_version: u16, pub version: u16,
  pub freelist: Freelist, pub read_only: bool, pub max_retries: u8,
}

impl Memory {
//@@fn file=memory.rs scope="impl<R: RefCounter, PR: PathRefCounter, H: Header> Memory<R, PR, H> {" name=freelist rename=m_freelist xlate=plain props=C16
//@contract
  ensures r == self.freelist, // [C16]
//@@end
//@@fn file=memory.rs scope="impl<R: RefCounter, PR: PathRefCounter, H: Header> Memory<R, PR, H> {" name=magic_version rename=m_magic_version xlate=plain props=C16
//@contract
  ensures r == self.magic_version, // [C16]
//@@end
//@@fn file=memory.rs scope="impl<R: RefCounter, PR: PathRefCounter, H: Header> Memory<R, PR, H> {" name=version rename=m_version xlate=plain props=C16
//@contract
  ensures r == self.version, // [C16]
//@@end
//@@fn file=memory.rs scope="impl<R: RefCounter, PR: PathRefCounter, H: Header> Memory<R, PR, H> {" name=flag rename=m_flag xlate=plain props=C16
//@contract
  ensures r == self.flag, // [C16]
//@@end
//@@fn file=memory.rs scope="impl<R: RefCounter, PR: PathRefCounter, H: Header> Memory<R, PR, H> {" name=data_offset rename=m_data_offset xlate=plain props=C16
//@contract
  ensures r == self.data_offset, // [C16]
//@@end
//@@fn file=memory.rs scope="impl<R: RefCounter, PR: PathRefCounter, H: Header> Memory<R, PR, H> {" name=reserved rename=m_reserved xlate=plain props=C16
//@contract
  ensures r == self.reserved, // [C16]
//@@end
//@@fn file=memory.rs scope="impl<R: RefCounter, PR: PathRefCounter, H: Header> Memory<R, PR, H> {" name=maximum_retries rename=m_maximum_retries xlate=plain props=C16
//@contract
  ensures r == self.max_retries, // [C16]
//@@end
//@@fn file=memory.rs scope="impl<R: RefCounter, PR: PathRefCounter, H: Header> Memory<R, PR, H> {" name=read_only rename=m_read_only xlate=plain props=C16
//@contract
  ensures r == self.read_only, // [C16]
//@@end
//@@fn file=memory.rs scope="impl<R: RefCounter, PR: PathRefCounter, H: Header> Memory<R, PR, H> {" name=cap rename=m_cap xlate=plain props=C16
//@contract
  ensures r == self.cap, // [C16]
//@@end
//@@fn file=memory.rs scope="impl<R: RefCounter, PR: PathRefCounter, H: Header> Memory<R, PR, H> {" name=as_mut_ptr rename=m_as_mut_ptr xlate=plain props=C16
//@contract
  ensures r == self.ptr, // [C16]
//@@end
//@@fn file=memory.rs scope="impl<R: RefCounter, PR: PathRefCounter, H: Header> Memory<R, PR, H> {" name=unify rename=m_unify xlate=plain props=C16
//@subst /MemoryFlags::ON_DISK/ => ON_DISK
//@contract
  ensures r == (self.unify || (self.flag.bits & 1u8 == 1u8)), // [C16] file-backed arenas always use the unified layout
//@@end
//@@fn file=memory.rs scope="impl<R: RefCounter, PR: PathRefCounter, H: Header> Memory<R, PR, H> {" name=alloc norm=1 xlate=plain st=mut props=C16,C09,C03
//@subst /AlignedVec::new::<H>\((.+?), (.+?)\)/ => AlignedVec::new_shim(st, \1, \2)
//@subst /let ptr = vec\.as_mut_ptr\(\);\s*ptr::write_bytes\(ptr, (.+?), (.+?)\);/ => let ptr = vec.as_mut_ptr(); st.fill_all(\1, \2);
//@subst /let header_ptr = ptr\.add\(header_ptr_offset\)\.cast::<H>\(\);/ => 
//@subst /super::write_sanity\(\s*opts\.freelist\(\) as u8,\s*opts\.magic_version\(\),\s*slice::from_raw_parts_mut\(\s*ptr\.add\((.+?)\),\s*(.+?),?\s*\),?\s*\);/ => st.write_sanity_at(\1, \2, freelist_u8(opts.freelist()), opts.magic_version());
//@subst /header_ptr\.write\((.+?)\);/ => st.write_header_at(header_ptr_offset, \1);
//@subst /#\[cfg\(all\(feature = "memmap", not\(target_family = "wasm"\)\)\)\]\s*\w+: [^,]+,/ => 
//@subst /\bH\b/ => Header
//@subst /R::new\(1\)/ => RefTok::new(1)
//@subst /MemoryFlags::empty\(\)/ => FlagTok::empty()
//@subst /MemoryBackend::Vec\(vec, PhantomData\)/ => BackendTok::vec(vec)
//@contract
  requires
    layout_ok::<Header>(), size_of::<Header>() <= 0x1000, align_of::<Header>() == 8, // Header is #[repr(C, align(8))]
    opts.reserved <= u32::MAX - 0x4000_0000,
  ensures
    r.is_err() <==> spec_data_offset::<Header>(opts.reserved as int, opts.unify) > (match opts.capacity { Some(c) => c as int, None => 0int }), // [C16 C09]
    r matches Err(e) ==> e matches Error::InsufficientSpace { .. }, // [C16]
    r matches Ok(m) ==> m.data_offset as int == spec_data_offset::<Header>(opts.reserved as int, opts.unify), // [C16]
    r matches Ok(m) ==> m.reserved == opts.reserved as usize && m.cap == (match opts.capacity { Some(c) => c, None => 0u32 }) && m.unify == opts.unify
        && !m.read_only && m.magic_version == opts.magic_version && m.version == CURRENT_VERSION && m.freelist == opts.freelist
        && m.max_retries == opts.maximum_retries && m.refs.n == 1 && m.flag.bits == 0, // [C16]
    r matches Ok(m) ==> final(st).buf_cap@ == m.cap as int && final(st).zeroed@ == m.cap as int, // [C16 C08]
    r matches Ok(m) ==> final(st).buf_align@ >= 8 && final(st).buf_align@ >= opts.maximum_alignment as int, // [C03] the base address is aligned for the header and for every T up to maximum_alignment
    r matches Ok(m) ==> (opts.unify ==>
          final(st).sanity_at@ == Some((opts.reserved as int, 8int, spec_freelist_u8(opts.freelist), opts.magic_version))
       && final(st).header_at@ == Some((spec_header_offset::<Header>(opts.reserved as int, true), Header { allocated: m.data_offset as u32, min_segment_size: opts.minimum_segment_size, discarded: 0 }))
       && m.header_ptr == Either::<u32, Header>::Left(spec_header_offset::<Header>(opts.reserved as int, true) as u32)), // [C16]
    r matches Ok(m) ==> (!opts.unify ==> final(st).sanity_at@ is None && final(st).header_at@ is None
       && m.header_ptr == Either::<u32, Header>::Right(Header { allocated: (opts.reserved + 1) as u32, min_segment_size: opts.minimum_segment_size, discarded: 0 })), // [C16]
//@@end
}

// ---- Memory::map_anon (anonymous mmap): the body of the closure handed the fresh mapping, as a fragment -------------------
/// byte pointer into the fresh mapping: only its offset from the mapping's base is modelled
#[derive(Copy, Clone)]
pub struct P8 { pub off: usize }
impl P8 {
  pub fn add(self, n: usize) -> (r: P8) requires self.off + n <= usize::MAX, ensures r.off == self.off + n { P8 { off: self.off + n } }
  pub fn sub(self, n: usize) -> (r: P8)
    requires n <= self.off, // [C16]
    ensures r.off == self.off - n { P8 { off: self.off - n } }
  #[verifier::external_body]
  pub fn raw(self) -> (r: *mut u8) { unimplemented!() }
}
pub struct MmapTok { pub cap: usize }
impl MmapTok {
  pub fn len(&self) -> (r: usize) ensures r == self.cap { self.cap }
  pub fn as_mut_ptr(&mut self) -> (r: P8) ensures r.off == 0, *final(self) == *old(self) { P8 { off: 0 } }
}
impl St {
  /// `write_sanity(freelist, magic_version, slice::from_raw_parts_mut(p, len))`
  #[verifier::external_body]
  pub fn write_sanity_ptr(&mut self, p: P8, len: usize, freelist: u8, magic_version: u16)
    requires p.off as int + len as int <= old(self).buf_cap@, len >= 8, // [C16 C09]
    ensures final(self).sanity_at@ == Some((p.off as int, len as int, freelist, magic_version)),
      final(self).buf_cap == old(self).buf_cap, final(self).zeroed == old(self).zeroed, final(self).header_at == old(self).header_at, final(self).buf_align == old(self).buf_align,
  { unimplemented!() }
  /// `p.cast::<H>().write(h)`
  #[verifier::external_body]
  pub fn write_header_ptr(&mut self, p: P8, h: Header)
    requires p.off as int + size_of::<Header>() as int <= old(self).buf_cap@, p.off as int % (align_of::<Header>() as int) == 0, // [C16]
    ensures final(self).header_at@ == Some((p.off as int, h)),
      final(self).buf_cap == old(self).buf_cap, final(self).zeroed == old(self).zeroed, final(self).sanity_at == old(self).sanity_at, final(self).buf_align == old(self).buf_align,
  { unimplemented!() }
}
pub struct IoError {}
pub fn invalid_input(e: Error) -> IoError { IoError {} }
pub const MMAP: FlagTok = FlagTok { bits: 2 };
impl BackendTok { pub fn anon(m: MmapTok, o: Options) -> BackendTok { BackendTok {} } }
pub struct MemoryAnon {
  pub cap: u32, pub reserved: usize, pub header_offset: usize, pub refs: RefTok, pub flag: FlagTok, pub ptr: *mut u8, pub header_ptr: Either<u32, Header>,
  pub backend: BackendTok, pub data_offset: usize, pub unify: bool, pub magic_version: u16, pub version: u16,
  pub freelist: Freelist, pub read_only: bool, pub max_retries: u8, pub lock_meta: bool,
}
impl MemoryAnon {
  /// `self.mlock(offset, len)`: checks the range against the mapping itself and fails when it is out of bounds
  #[verifier::external_body]
  pub fn mlock(&self, offset: usize, len: usize) -> (r: Result<(), IoError>)
  { unimplemented!() }
}
impl Options {
  #[verifier::external_body]
  pub fn lock_meta(&self) -> (r: bool) { unimplemented!() }
}

//@@frag file=memory.rs scope="impl<R: RefCounter, PR: PathRefCounter, H: Header> Memory<R, PR, H> {" fn=map_anon from="/let map_cap = mmap\.len\(\);/" stmts=11 name=map_anon__body params="st: &mut St, mmap: MmapTok, opts: Options" ret="Result<MemoryAnon, IoError>" result="r__" props=C16,C09
//@subst /^(\s*)let map_cap/ => \1let mut mmap = mmap; let map_cap
//@subst /check_capacity::<H>\((.+?)\)\.map_err\(invalid_input\)\?/ => match check_capacity::<Header>(\1) { Ok(x) => x, Err(e) => { return Err(invalid_input(e)); } }
//@subst /ptr::write_bytes\(ptr, (.+?), (.+?)\);/ => st.fill_all(\1, \2);
//@subst /super::write_sanity\(\s*freelist as u8,\s*magic_version,\s*slice::from_raw_parts_mut\((.+?), (mem::align_of::<H>\(\)|\d+)\),?\s*\);/ => st.write_sanity_ptr(\1, \2, freelist_u8(freelist), magic_version);
//@subst /header_ptr\s*\.cast::<H>\(\)\s*\.write\((.+?)\);/ => st.write_header_ptr(header_ptr, \1);
//@subst /\bH\b/ => Header
//@subst /R::new\(1\)/ => RefTok::new(1)
//@subst /MemoryFlags::MMAP/ => MMAP
//@subst /MemoryBackend::AnonymousMmap \{ buf: mmap, opts \}/ => BackendTok::anon(mmap, opts)
//@subst /let this = Self \{/ => let this = MemoryAnon {
//@subst /\bptr,\n/ => ptr: ptr.raw(),\n
//@subst /(?<![:\w])mem::(size_of|align_of)/ => core::mem::\1
//@subst /\n(\s*)unsafe \{/ => \n\1let r__: Result<MemoryAnon, IoError> = unsafe {
//@subst /Ok\(this\)\s*\}\s*$/ => Ok(this) };
//@contract
  requires
    layout_ok::<Header>(), size_of::<Header>() <= 0x1000, align_of::<Header>() == 8, // Header is #[repr(C, align(8))]
    opts.reserved <= u32::MAX - 0x4000_0000,
    mmap.cap <= u32::MAX as usize, // the mapping was created with the u32 capacity of the options
    old(st).buf_cap@ == mmap.cap as int, old(st).sanity_at@ is None, old(st).header_at@ is None,
  ensures
    spec_data_offset::<Header>(opts.reserved as int, opts.unify) > mmap.cap as int ==> r.is_err(), // [C16 C09]
    r matches Ok(m) ==> m.data_offset as int == spec_data_offset::<Header>(opts.reserved as int, opts.unify), // [C16]
    r matches Ok(m) ==> m.reserved == opts.reserved as usize && m.cap as usize == mmap.cap && m.unify == opts.unify
        && !m.read_only && m.magic_version == opts.magic_version && m.version == CURRENT_VERSION && m.freelist == opts.freelist
        && m.max_retries == opts.maximum_retries && m.refs.n == 1 && m.flag.bits == 2
        && m.header_offset as int == spec_header_offset::<Header>(opts.reserved as int, opts.unify), // [C16]
    r matches Ok(m) ==> final(st).buf_cap@ == m.cap as int && final(st).zeroed@ == m.cap as int, // [C16 C08]
    r matches Ok(m) ==> (opts.unify ==>
          final(st).sanity_at@ == Some((opts.reserved as int, 8int, spec_freelist_u8(opts.freelist), opts.magic_version))
       && final(st).header_at@ == Some((spec_header_offset::<Header>(opts.reserved as int, true), Header { allocated: m.data_offset as u32, min_segment_size: opts.minimum_segment_size, discarded: 0 }))
       && m.header_ptr == Either::<u32, Header>::Left(spec_header_offset::<Header>(opts.reserved as int, true) as u32)), // [C16]
    r matches Ok(m) ==> (!opts.unify ==> final(st).sanity_at@ is None && final(st).header_at@ is None
       && m.header_ptr == Either::<u32, Header>::Right(Header { allocated: (opts.reserved + 1) as u32, min_segment_size: opts.minimum_segment_size, discarded: 0 })), // [C16]
//@@end

// ---- file constructors: only the statement that builds the Memory value is within reach (fragments).  What it must
// ---- establish is the invariant Memory::clear and the accessors rely on: data_offset is the offset of the layout that the
// ---- `unify` FIELD names (file-backed arenas always use the unified layout), and the descriptive fields carry the options
pub fn flag_or(a: FlagTok, b: FlagTok) -> (r: FlagTok)
  ensures r.bits == a.bits | b.bits, a.bits == 1 && b.bits == 2 ==> r.bits == 3,
{ proof { assert(1u8 | 2u8 == 3u8) by (bit_vector); } FlagTok { bits: a.bits | b.bits } }
pub struct FileBackendTok {}

//@@frag file=memory.rs scope="impl<R: RefCounter, PR: PathRefCounter, H: Header> Memory<R, PR, H> {" fn=map_mut_in from="/^\s*let this = Self \{\s*$/" name=map_mut_in__memory_value params="cap: usize, reserved: usize, header_ptr_offset: usize, ptr: *mut u8, data_offset: usize, magic_version: u16, version: u16, freelist: Freelist, opts: Options, backend: BackendTok" ret=MemoryAnon result=this props=C16
//@subst /let this = Self \{/ => let this = MemoryAnon {
//@subst /MemoryFlags::ON_DISK \| MemoryFlags::MMAP/ => flag_or(ON_DISK, MMAP)
//@subst /backend: MemoryBackend::MmapMut \{.*?\},\n/ => backend,\n
//@subst /R::new\(1\)/ => RefTok::new(1)
//@contract
  requires
    layout_ok::<Header>(), size_of::<Header>() <= 0x1000, reserved <= 0x4000_0000, cap <= u32::MAX as usize,
    header_ptr_offset as int == spec_header_offset::<Header>(reserved as int, true), // computed by check_capacity::<H>(reserved, true, ..) above
    data_offset as int == header_ptr_offset as int + size_of::<Header>() as int,
  ensures
    r.data_offset as int == spec_data_offset::<Header>(r.reserved as int, r.unify), // [C16]
    r.unify, // [C16]
    r.header_ptr == Either::<u32, Header>::Left(header_ptr_offset as u32) && r.header_offset == header_ptr_offset, // [C16]
    r.cap as usize == cap && r.reserved == reserved && r.data_offset == data_offset && r.magic_version == magic_version && r.version == version
      && r.freelist == freelist && !r.read_only && r.max_retries == opts.maximum_retries && r.refs.n == 1 && r.flag.bits == 3, // [C16]
//@@end

//@@frag file=memory.rs scope="impl<R: RefCounter, PR: PathRefCounter, H: Header> Memory<R, PR, H> {" fn=map_in from="/^\s*let this = Self \{\s*$/" name=map_in__memory_value params="len: usize, reserved: usize, header_ptr_offset: usize, ptr: *mut u8, data_offset: usize, magic_version: u16, freelist: Freelist, opts: Options, backend: BackendTok" ret=MemoryAnon result=this props=C16,C09
//@subst /let this = Self \{/ => let this = MemoryAnon {
//@subst /MemoryFlags::ON_DISK \| MemoryFlags::MMAP/ => flag_or(ON_DISK, MMAP)
//@subst /backend: MemoryBackend::Mmap \{.*?\},\n/ => backend,\n
//@subst /ptr: ptr as _,/ => ptr,
//@subst /R::new\(1\)/ => RefTok::new(1)
//@contract
  requires
    layout_ok::<Header>(), size_of::<Header>() <= 0x1000, reserved <= 0x4000_0000, len <= u32::MAX as usize,
    header_ptr_offset as int == spec_header_offset::<Header>(reserved as int, true),
    data_offset as int == header_ptr_offset as int + size_of::<Header>() as int,
  ensures
    r.data_offset as int == spec_data_offset::<Header>(r.reserved as int, r.unify), // [C16]
    r.unify, // [C16]
    r.header_ptr == Either::<u32, Header>::Left(header_ptr_offset as u32) && r.header_offset == header_ptr_offset, // [C16]
    r.cap as usize == len && r.reserved == reserved && r.data_offset == data_offset && r.magic_version == magic_version && r.version == CURRENT_VERSION
      && r.freelist == freelist && r.read_only && r.max_retries == opts.maximum_retries && r.refs.n == 1 && r.flag.bits == 3, // [C16 C09]
//@@end

// ---- From<Memory> for Arena: the arena handle caches the Memory's fields (both flavours) --------------------------------
pub struct InnerTok {}
/// `NonNull::new_unchecked(Box::into_raw(Box::new(memory)) as _)`
pub fn box_memory(m: Memory) -> InnerTok { InnerTok {} }
pub fn page_size_static() -> u32 { 4096 }
pub struct Arena {
  pub ptr: *mut u8, pub cap: u32, pub inner: InnerTok, pub reserved: usize, pub data_offset: u32, pub flag: FlagTok,
  pub max_retries: u8, pub unify: bool, pub magic_version: u16, pub version: u16, pub ro: bool, pub freelist: Freelist, pub page_size: u32,
}
impl Arena {
//@@fn file=unsync.rs scope="impl From<Memory> for Arena {" name=from rename=from_unsync norm=1 xlate=plain props=C16
//@subst /memory\.(freelist|magic_version|version|flag|data_offset|reserved|maximum_retries|read_only|cap|as_mut_ptr|unify)\(\)/ => memory.m_\1()
//@subst /unsafe \{\s*NonNull::new_unchecked\(Box::into_raw\(Box::new\(memory\)\) as _\)\s*\}/ => box_memory(memory)
//@subst /\*PAGE_SIZE/ => page_size_static()
//@contract
  requires memory.data_offset <= u32::MAX as usize,
  ensures
    r.reserved == memory.reserved && r.freelist == memory.freelist && r.cap == memory.cap && r.flag == memory.flag
      && r.unify == (memory.unify || (memory.flag.bits & 1u8 == 1u8)) && r.magic_version == memory.magic_version && r.version == memory.version
      && r.ptr == memory.ptr && r.ro == memory.read_only && r.max_retries == memory.max_retries && r.data_offset as usize == memory.data_offset, // [C16]
//@@end
//@@fn file=sync.rs scope="impl From<Memory> for Arena {" name=from rename=from_sync norm=1 xlate=plain props=C16
//@subst /memory\.(freelist|magic_version|version|flag|data_offset|reserved|maximum_retries|read_only|cap|as_mut_ptr|unify)\(\)/ => memory.m_\1()
//@subst /unsafe \{\s*NonNull::new_unchecked\(Box::into_raw\(Box::new\(memory\)\) as _\)\s*\}/ => box_memory(memory)
//@subst /\*PAGE_SIZE/ => page_size_static()
//@contract
  requires memory.data_offset <= u32::MAX as usize,
  ensures
    r.reserved == memory.reserved && r.freelist == memory.freelist && r.cap == memory.cap && r.flag == memory.flag
      && r.unify == (memory.unify || (memory.flag.bits & 1u8 == 1u8)) && r.magic_version == memory.magic_version && r.version == memory.version
      && r.ptr == memory.ptr && r.ro == memory.read_only && r.max_retries == memory.max_retries && r.data_offset as usize == memory.data_offset, // [C16]
//@@end
//@@fn file=unsync.rs scope="impl Allocator for Arena {" name=reserved_bytes xlate=plain props=C16
//@contract
  ensures r == self.reserved, // [C16]
//@@end
//@@fn file=unsync.rs scope="impl Allocator for Arena {" name=magic_version xlate=plain props=C16
//@contract
  ensures r == self.magic_version, // [C16]
//@@end
//@@fn file=unsync.rs scope="impl Allocator for Arena {" name=version xlate=plain props=C16
//@contract
  ensures r == self.version, // [C16]
//@@end
//@@fn file=unsync.rs scope="impl Allocator for Arena {" name=data_offset xlate=plain props=C16
//@contract
  ensures r == self.data_offset as usize, // [C16]
//@@end
//@@fn file=unsync.rs scope="impl Allocator for Arena {" name=page_size xlate=plain props=C16
//@contract
  ensures r == self.page_size as usize, // [C16]
//@@end
//@@fn file=sync.rs scope="impl Allocator for Arena {" name=read_only xlate=plain props=C16,C09
//@contract
  ensures r == self.ro, // [C16 C09]
//@@end
}

} // verus!
fn main() {}
