// U_arith: verbatim bodies of the pure arithmetic / layout helpers (DESIGN.md section 2).
use vstd::prelude::*;
use vstd::layout::*;
use core::mem;
verus! {

global size_of usize == 8; // assumption: 64-bit target (listed in evidence)

//@@include spec_arith.rs

pub const SEGMENT_NODE_SIZE: usize = 8;
pub enum Error { InsufficientSpace { requested: u32, available: u32 }, ReadOnly, OutOfBounds { offset: usize, allocated: usize } }

// ---- lib.rs --------------------------------------------------------------------------------

//@@fn file=lib.rs name=decode_segment_node props=C10,C01
//@contract
  ensures r == dec(val), // [C10 C01]
//@@end

//@@fn file=lib.rs name=encode_segment_node props=C10,C01
//@contract
  ensures r == enc(size, next), // [C10 C01]
//@@end

//@@fn file=lib.rs name=align_offset props=C03,C04
//@contract
  requires
    layout_ok::<T>(),
    current_offset as int + align_of::<T>() as int <= u32::MAX as int, // [C04]
  ensures
    r as int == align_up(current_offset as int, align_of::<T>() as int), // [C03]
    r >= current_offset, // [C03]
    (r as int - current_offset as int) < (align_of::<T>() as int), // [C03]
    r as int % (align_of::<T>() as int) == 0, // [C03]
//@before 1 /\(current_offset \+ alignment - 1\)/
  proof {
    let x = current_offset; let a = alignment;
    assert(a != 0 && a & sub(a,1) == 0 && add(x, sub(a,1)) >= x ==>
       ({ let r = add(x, sub(a, 1)) & !sub(a,1); r >= x && sub(r, x) < a && r % a == 0 })) by (bit_vector);
    lemma_align_up_unique(x as int, a as int, (add(x, sub(a, 1)) & !sub(a,1)) as int);
  }
//@@end

// ---- options.rs / memory.rs: layout formulas --------------------------------------------------

//@@fn file=options.rs name=data_offset_in scope="impl Options {" props=C16
//@contract
  requires
    layout_ok::<H>(), size_of::<H>() <= 0x1000_0000,
    reserved <= u32::MAX as usize - 0x2000_0000, // [C16]
  ensures
    r as int == spec_data_offset::<H>(reserved as int, unify), // [C16]
//@@end

//@@fn file=memory.rs name=header_meta props=C16
//@contract
  requires
    layout_ok::<H>(), size_of::<H>() <= 0x1000_0000,
    reserved <= u32::MAX as usize - 0x2000_0000, // [C16]
  ensures
    r.1 as int == spec_data_offset::<H>(reserved as int, unify), // [C16]
    r.0 as int == spec_header_offset::<H>(reserved as int, unify), // [C16]
    unify ==> r.0 as int % (align_of::<H>() as int) == 0 && r.0 as int >= reserved as int + align_of::<H>() as int, // [C16]
//@before 1 /\(offset, offset \+ mem::size_of::<H>\(\)\)/
    proof { lemma_mod_plus_self(align_up(reserved as int, align_of::<H>() as int), align_of::<H>() as int); }
//@@end

//@@fn file=memory.rs name=check_capacity props=C16,C09
//@contract
  requires
    layout_ok::<H>(), size_of::<H>() <= 0x1000_0000,
    reserved <= u32::MAX as usize - 0x2000_0000, // [C16]
  ensures
    r.is_err() <==> spec_data_offset::<H>(reserved as int, unify) > capacity as int, // [C16 C09]
    r matches Ok(o) ==> o as int == spec_header_offset::<H>(reserved as int, unify), // [C16]
    r matches Err(e) ==> e matches Error::InsufficientSpace { .. }, // [C16]
//@@end

} // verus!
fn main() {}
