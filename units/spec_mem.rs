// ---- shared memory / free-list model (hand-written; spec and proof code only) ------------------
// Included by U_unsync and U_sync.  All specifications are phrased over the flavour-independent
// views `AV` (immutable arena configuration) and `SV` (mutable arena state), so both flavours are
// verified against literally the same text.

pub const SENTINEL_SEGMENT_NODE_OFFSET: u32 = u32::MAX;
pub const SENTINEL_SEGMENT_NODE_SIZE: u32 = u32::MAX;
pub const SEGMENT_NODE_SIZE: usize = 8;

#[derive(Copy, Clone, PartialEq, Eq)]
pub enum CellRef { Sentinel, Node(u32) }
#[derive(Copy, Clone, PartialEq, Eq)]
pub enum Freelist { None, Optimistic, Pessimistic }
pub enum ArenaPosition { Start(u32), End(u32), Current(i64) }

/// "a u64 occupies 8 bytes and reads back what was written" (endianness-agnostic)
pub uninterp spec fn w64(s: Seq<u8>) -> u64;
pub uninterp spec fn b64(v: u64) -> Seq<u8>;
#[verifier::external_body]
pub broadcast proof fn axiom_w64_b64(v: u64)
  ensures w64(#[trigger] b64(v)) == v, b64(v).len() == 8
{}

pub type Node = (u32, u32);   // (offset of the 8-byte node word, data size)

pub ghost struct AV { pub cap: int, pub data_offset: int, pub ro: bool, pub freelist: Freelist }

pub ghost struct SV {
  pub allocated: int, pub discarded: int, pub min_seg: int,
  pub list: Seq<Node>,
  pub sentinel: u64, pub bytes: Seq<u8>,
  pub writable: bool, pub lo: int,
}

pub open spec fn splice(b: Seq<u8>, off: int, s: Seq<u8>) -> Seq<u8> {
  Seq::new(b.len(), |i: int| if off <= i < off + s.len() { s[i - off] } else { b[i] })
}
pub open spec fn zeros(n: int) -> Seq<u8> { Seq::new(n as nat, |i: int| 0u8) }

pub open spec fn word(s: SV, c: CellRef) -> u64 {
  match c { CellRef::Sentinel => s.sentinel, CellRef::Node(o) => w64(s.bytes.subrange(o as int, o as int + 8)) }
}

pub open spec fn next_of(l: Seq<Node>, i: int) -> u32 {
  if i + 1 < l.len() { l[i + 1].0 } else { SENTINEL_SEGMENT_NODE_OFFSET }
}
pub open spec fn cell_of(l: Seq<Node>, i: int) -> CellRef {
  if i < 0 { CellRef::Sentinel } else { CellRef::Node(l[i].0) }
}
pub open spec fn size_of_cell(l: Seq<Node>, i: int) -> u32 {
  if i < 0 { SENTINEL_SEGMENT_NODE_SIZE } else { l[i].1 }
}
pub open spec fn node_end(n: Node) -> int { n.0 as int + 8 + n.1 as int }
pub open spec fn apart(a: Node, b: Node) -> bool { node_end(a) <= b.0 as int || node_end(b) <= a.0 as int }

/// comparator of the two policies: the insertion / search position is the first index k with chk(..)
pub open spec fn chk(asc: bool, val: u32, s: u32) -> bool { if asc { val <= s } else { val >= s } }

pub open spec fn first_idx_from(l: Seq<Node>, val: u32, asc: bool, k: int) -> int
  decreases l.len() - k
{
  if k >= l.len() { l.len() as int } else if chk(asc, val, l[k].1) { k } else { first_idx_from(l, val, asc, k + 1) }
}
pub open spec fn first_idx(l: Seq<Node>, val: u32, asc: bool) -> int { first_idx_from(l, val, asc, 0) }

pub proof fn lemma_first_idx_from(l: Seq<Node>, val: u32, asc: bool, k: int, j: int)
  requires 0 <= j <= k <= l.len(),
    forall|m: int| j <= m < k ==> !chk(asc, val, #[trigger] l[m].1),
    k == l.len() || chk(asc, val, l[k].1),
  ensures first_idx_from(l, val, asc, j) == k
  decreases k - j
{
  if j < k { lemma_first_idx_from(l, val, asc, k, j + 1); }
}
pub proof fn lemma_first_idx(l: Seq<Node>, val: u32, asc: bool, k: int)
  requires 0 <= k <= l.len(),
    forall|m: int| 0 <= m < k ==> !chk(asc, val, #[trigger] l[m].1),
    k == l.len() || chk(asc, val, l[k].1),
  ensures first_idx(l, val, asc) == k
{ lemma_first_idx_from(l, val, asc, k, 0); }

pub proof fn lemma_first_idx_props_from(l: Seq<Node>, val: u32, asc: bool, j: int)
  requires 0 <= j <= l.len()
  ensures
    j <= first_idx_from(l, val, asc, j) <= l.len(),
    forall|m: int| j <= m < first_idx_from(l, val, asc, j) ==> !chk(asc, val, #[trigger] l[m].1),
    first_idx_from(l, val, asc, j) == l.len() || chk(asc, val, l[first_idx_from(l, val, asc, j)].1),
  decreases l.len() - j
{
  if j < l.len() && !chk(asc, val, l[j].1) { lemma_first_idx_props_from(l, val, asc, j + 1); }
}

// ---- representation invariant -------------------------------------------------------------------

pub open spec fn geom(a: AV, s: SV) -> bool {
  &&& 1 <= a.data_offset <= s.allocated <= a.cap <= u32::MAX as int - 8   // assumption: capacity <= 2^32 - 9
  &&& s.bytes.len() == a.cap
  &&& s.lo == a.data_offset
  &&& s.writable == !a.ro
  &&& 0 <= s.discarded <= u32::MAX as int
  &&& 0 <= s.min_seg <= u32::MAX as int
}
pub open spec fn node_ok(a: AV, s: SV, n: Node) -> bool {
  n.0 as int % 8 == 0 && a.data_offset <= n.0 as int && node_end(n) <= s.allocated && n.1 >= 1
}
pub open spec fn nodes_ok(a: AV, s: SV) -> bool {
  forall|i: int| 0 <= i < s.list.len() ==> node_ok(a, s, #[trigger] s.list[i])
}
pub open spec fn disjoint(l: Seq<Node>) -> bool {
  forall|i: int, j: int| 0 <= i < j < l.len() ==> apart(#[trigger] l[i], #[trigger] l[j])
}
pub open spec fn linked(s: SV) -> bool {
  forall|i: int| -1 <= i < s.list.len() ==> word(s, #[trigger] cell_of(s.list, i)) == enc(size_of_cell(s.list, i), next_of(s.list, i))
}
/// shape part of the invariant: bounds, alignment, disjointness, linkage (finite + acyclic follow:
/// the memory words spell out exactly the finite sequence `list`)
pub open spec fn wf_shape(a: AV, s: SV) -> bool {
  geom(a, s) && nodes_ok(a, s) && disjoint(s.list) && linked(s)
}
/// order part: descending sizes for Optimistic, ascending for Pessimistic, no list for None
pub open spec fn wf_order(a: AV, s: SV) -> bool {
  match a.freelist {
    Freelist::None => s.list.len() == 0,
    Freelist::Optimistic => forall|i: int, j: int| 0 <= i <= j < s.list.len() ==> (#[trigger] s.list[i]).1 >= (#[trigger] s.list[j]).1,
    Freelist::Pessimistic => forall|i: int, j: int| 0 <= i <= j < s.list.len() ==> (#[trigger] s.list[i]).1 <= (#[trigger] s.list[j]).1,
  }
}
pub open spec fn wf(a: AV, s: SV) -> bool { wf_shape(a, s) && wf_order(a, s) }

// ---- free space, frames ---------------------------------------------------------------------------

pub open spec fn in_node(n: Node, b: int) -> bool { n.0 as int <= b < node_end(n) }
pub open spec fn in_list(l: Seq<Node>, b: int) -> bool { exists|i: int| 0 <= i < l.len() && in_node(#[trigger] l[i], b) }
/// byte b is free: above the cursor or inside a free-list segment
pub open spec fn in_free(s: SV, b: int) -> bool { b >= s.allocated || in_list(s.list, b) }

/// [lo, hi) does not meet any free-list segment
pub open spec fn clear_of_list(l: Seq<Node>, lo: int, hi: int) -> bool {
  forall|i: int| 0 <= i < l.len() ==> node_end(#[trigger] l[i]) <= lo || hi <= l[i].0 as int
}

/// bytes outside [lo, hi) are the same in s and t
pub open spec fn same_outside(s: Seq<u8>, t: Seq<u8>, lo: int, hi: int) -> bool {
  s.len() == t.len() && forall|b: int| 0 <= b < s.len() && !(lo <= b < hi) ==> s[b] == t[b]
}
pub open spec fn all_zero(s: Seq<u8>, lo: int, hi: int) -> bool {
  forall|b: int| lo <= b < hi ==> s[b] == 0
}

/// everything but the bytes/sentinel is equal
pub open spec fn same_hdr(s: SV, t: SV) -> bool {
  s.allocated == t.allocated && s.discarded == t.discarded && s.min_seg == t.min_seg && s.writable == t.writable && s.lo == t.lo
}

// ---- byte-level lemmas ------------------------------------------------------------------------------

pub proof fn lemma_word_frame(b: Seq<u8>, t: Seq<u8>, lo: int, hi: int, o: int)
  requires same_outside(b, t, lo, hi), 0 <= o, o + 8 <= b.len(), o + 8 <= lo || hi <= o
  ensures t.subrange(o, o + 8) == b.subrange(o, o + 8)
{
  assert(t.subrange(o, o + 8) =~= b.subrange(o, o + 8));
}
pub proof fn lemma_word_written(b: Seq<u8>, o: int, v: u64)
  requires 0 <= o, o + 8 <= b.len()
  ensures w64(splice(b, o, b64(v)).subrange(o, o + 8)) == v, same_outside(b, splice(b, o, b64(v)), o, o + 8)
{
  broadcast use axiom_w64_b64;
  assert(splice(b, o, b64(v)).subrange(o, o + 8) =~= b64(v));
}
pub proof fn lemma_zero_written(b: Seq<u8>, o: int, n: int)
  requires 0 <= o, 0 <= n, o + n <= b.len()
  ensures all_zero(splice(b, o, zeros(n)), o, o + n), same_outside(b, splice(b, o, zeros(n)), o, o + n)
{}

/// word of a cell is unchanged when bytes change only inside [lo,hi) and the cell's 8 bytes are outside
pub proof fn lemma_cell_frame(s: SV, t: SV, lo: int, hi: int, c: CellRef)
  requires same_outside(s.bytes, t.bytes, lo, hi), s.sentinel == t.sentinel,
    c matches CellRef::Node(o) ==> (o as int + 8 <= s.bytes.len() && (o as int + 8 <= lo || hi <= o as int)),
  ensures word(t, c) == word(s, c)
{
  match c { CellRef::Sentinel => {}, CellRef::Node(o) => { lemma_word_frame(s.bytes, t.bytes, lo, hi, o as int); } }
}
