// ---- trusted shim, sync flavour (hand-written).  Every external_body here is an ASSUMPTION --------
// Atomics are given SEQUENTIAL semantics (one thread): a load returns the last stored value, a strong
// compare_exchange succeeds iff the current value equals the expected one, compare_exchange_weak may
// additionally fail spuriously.  Memory orderings are carried as plain arguments and have no meaning here.
pub enum Error { InsufficientSpace { requested: u32, available: u32 }, ReadOnly, OutOfBounds { offset: usize, allocated: usize } }

#[derive(Copy, Clone, PartialEq, Eq)]
pub enum Ordering { Relaxed, Release, Acquire, AcqRel, SeqCst }

pub const REMOVED_SEGMENT_NODE: u32 = 0;

pub struct AtomicU32 { pub v: u32 }
impl AtomicU32 {
  pub fn load(&self, o: Ordering) -> (r: u32) ensures r == self.v { self.v }
  pub fn store(&mut self, v: u32, o: Ordering) ensures final(self).v == v { self.v = v; }
  #[verifier::external_body]
  pub fn fetch_add(&mut self, v: u32, o: Ordering) -> (r: u32)
    ensures r == old(self).v, final(self).v as int == (old(self).v as int + v as int) % 0x1_0000_0000
  { unimplemented!() }
  pub fn compare_exchange(&mut self, cur: u32, new: u32, s: Ordering, f: Ordering) -> (r: Result<u32, u32>)
    ensures
      old(self).v == cur ==> r == Ok::<u32, u32>(cur) && final(self).v == new,
      old(self).v != cur ==> r == Err::<u32, u32>(old(self).v) && final(self).v == old(self).v,
  { if self.v == cur { self.v = new; Ok(cur) } else { Err(self.v) } }
  #[verifier::external_body]
  pub fn compare_exchange_weak(&mut self, cur: u32, new: u32, s: Ordering, f: Ordering) -> (r: Result<u32, u32>)
    ensures match r {
      Ok(x) => x == cur && old(self).v == cur && final(self).v == new,
      Err(x) => x == old(self).v && final(self).v == old(self).v,
    }
  { unimplemented!() }
}

/// crossbeam Backoff: a scheduling hint without effect on the arena state
pub struct Backoff {}
impl Backoff {
  pub fn new() -> Self { Backoff {} }
  pub fn snooze(&self) {}
  pub fn spin(&self) {}
}

pub struct Header { pub allocated: AtomicU32, pub min_segment_size: AtomicU32, pub discarded: AtomicU32 }
pub ghost struct Mem { pub sentinel: u64, pub bytes: Seq<u8> }
pub struct St {
  pub hdr: Header,
  pub mem: Ghost<Mem>,
  pub list: Ghost<Seq<Node>>,
  pub writable: Ghost<bool>,
  pub lo: Ghost<int>,
}

impl View for St {
  type V = SV;
  open spec fn view(&self) -> SV {
    SV {
      allocated: self.hdr.allocated.v as int, discarded: self.hdr.discarded.v as int, min_seg: self.hdr.min_segment_size.v as int,
      list: self.list@, sentinel: self.mem@.sentinel, bytes: self.mem@.bytes, writable: self.writable@, lo: self.lo@,
    }
  }
}

impl St {
  /// `cell.load(ordering)`: read of an 8-byte node word (or the sentinel word in the header)
  #[verifier::external_body]
  pub fn cell_load(&self, c: CellRef, o: Ordering) -> (r: u64)
    requires c matches CellRef::Node(x) ==> x as int % 8 == 0 && self@.lo <= x as int && x as int + 8 <= self@.bytes.len(), // [C01 C04]
    ensures r == word(self@, c),
  { unimplemented!() }

  /// `cell.store(v, ordering)`
  #[verifier::external_body]
  pub fn cell_store(&mut self, c: CellRef, v: u64, o: Ordering)
    requires
      old(self)@.writable, // [C09]
      c matches CellRef::Node(x) ==> x as int % 8 == 0 && old(self)@.lo <= x as int && x as int + 8 <= old(self)@.bytes.len(), // [C01 C04 C16]
    ensures
      final(self).hdr == old(self).hdr, final(self).list == old(self).list,
      final(self)@ == store_view(old(self)@, c, v),
  { unimplemented!() }

  /// `cell.compare_exchange(cur, new, ..)` (strong): succeeds iff the word equals `cur`
  #[verifier::external_body]
  pub fn cell_cas(&mut self, c: CellRef, cur: u64, new: u64, s: Ordering, f: Ordering) -> (r: Result<u64, u64>)
    requires
      old(self)@.writable, // [C09]
      c matches CellRef::Node(x) ==> x as int % 8 == 0 && old(self)@.lo <= x as int && x as int + 8 <= old(self)@.bytes.len(), // [C01 C04 C16]
    ensures
      final(self).hdr == old(self).hdr, final(self).list == old(self).list,
      word(old(self)@, c) == cur ==> r == Ok::<u64, u64>(cur) && final(self)@ == store_view(old(self)@, c, new),
      word(old(self)@, c) != cur ==> r == Err::<u64, u64>(word(old(self)@, c)) && final(self)@ == old(self)@,
  { unimplemented!() }

  /// `ptr::write_bytes(base.add(off), v, n)`
  #[verifier::external_body]
  pub fn write_bytes(&mut self, off: usize, v: u8, n: usize)
    requires
      old(self)@.writable, // [C09]
      old(self)@.lo <= off as int, // [C01 C16]
      off as int + n as int <= old(self)@.bytes.len(), // [C01 C04]
    ensures
      final(self).hdr == old(self).hdr, final(self).list == old(self).list,
      final(self)@ == (SV { bytes: splice(old(self)@.bytes, off as int, Seq::new(n as nat, |i: int| v)), ..old(self)@ }),
  { unimplemented!() }

  /// no-op inserted by rule R3b before every write to a header field: the header is only writable if the arena is
  pub fn touch_hdr(&self)
    requires self@.writable, // [C09]
  {}
}

#[verifier::external_body]
pub fn rt_panic()
  requires false, // [C04 C09]
  ensures false,
{ panic!() }
#[verifier::external_body]
pub fn rt_panic_documented()
  ensures false,
{ panic!() }

pub struct Arena {
  pub ptr: *mut u8, pub cap: u32, pub data_offset: u32, pub ro: bool, pub freelist: Freelist,
  pub max_retries: u8, pub reserved: usize, pub page_size: u32,
}
impl Arena {
  pub open spec fn av(&self) -> AV {
    AV { cap: self.cap as int, data_offset: self.data_offset as int, ro: self.ro, freelist: self.freelist }
  }
}

impl Arena {
  /// `(&mut *self.inner.as_ptr()).clear()`: Memory::clear, proved against this very contract in U_memory (C17);
  /// Arena::data_offset / cap are the values cached from the Memory at construction
  #[verifier::external_body]
  pub fn memory_clear(&self, st: &mut St)
    requires
      old(st)@.writable, // [C09]
      old(st)@.bytes.len() == self.cap as int, old(st)@.lo == self.data_offset as int, self.data_offset <= self.cap,
    ensures
      final(st).list == old(st).list,
      final(st)@.allocated == self.data_offset as int, final(st)@.discarded == 0, final(st)@.min_seg == old(st)@.min_seg,
      final(st)@.sentinel == enc(SENTINEL_SEGMENT_NODE_SIZE, SENTINEL_SEGMENT_NODE_OFFSET),
      all_zero(final(st)@.bytes, self.data_offset as int, self.cap as int),
      same_outside(old(st)@.bytes, final(st)@.bytes, self.data_offset as int, self.cap as int),
      final(st)@.writable == old(st)@.writable && final(st)@.lo == old(st)@.lo,
  { unimplemented!() }
}
