// ---- shared arithmetic specs (hand-written; spec/proof only) ----------------------------------
pub open spec fn dec(val: u64) -> (u32, u32) { ((val >> 32) as u32, val as u32) }
pub open spec fn enc(size: u32, next: u32) -> u64 { ((size as u64) << 32) | next as u64 }

pub proof fn lemma_dec_enc(size: u32, next: u32)
  ensures dec(enc(size, next)) == (size, next)
{
  assert(((((size as u64) << 32) | next as u64) >> 32) as u32 == size) by (bit_vector);
  assert((((size as u64) << 32) | next as u64) as u32 == next) by (bit_vector);
}

pub open spec fn is_pow2_u32(a: u32) -> bool { a != 0 && a & sub(a, 1) == 0 }

/// Assumed facts about any Rust type layout (listed in every evidence file):
/// alignment is a power of two not above 2^29, size is a multiple of alignment.
pub open spec fn layout_ok<T>() -> bool {
  &&& is_pow2_u32(align_of::<T>() as u32)
  &&& 1 <= align_of::<T>() <= 0x2000_0000
  &&& size_of::<T>() as int % (align_of::<T>() as int) == 0
}

/// least multiple of `a` that is >= x (mathematical integers)
pub open spec fn align_up(x: int, a: int) -> int
  recommends a > 0
{
  if x % a == 0 { x } else { x + (a - x % a) }
}

pub proof fn lemma_align_up_unique(x: int, a: int, r: int)
  requires a > 0, x >= 0, r >= x, r - x < a, r % a == 0
  ensures r == align_up(x, a)
{
  vstd::arithmetic::div_mod::lemma_fundamental_div_mod(x, a);
  vstd::arithmetic::div_mod::lemma_fundamental_div_mod(r, a);
  let qx = x / a; let qr = r / a;
  // r = a*qr, x = a*qx + x%a, 0 <= r - x < a
  if x % a == 0 {
    assert(a * qr - a * qx < a);
    assert(a * (qr - qx) == a * qr - a * qx) by (nonlinear_arith);
    assert(qr - qx < 1) by (nonlinear_arith) requires a * (qr - qx) < a, a > 0;
    assert(qr - qx >= 0) by (nonlinear_arith) requires a * (qr - qx) >= 0, a > 0;
  } else {
    assert(a * (qr - qx) == a * qr - a * qx) by (nonlinear_arith);
    assert(qr - qx <= 1) by (nonlinear_arith) requires a * (qr - qx) < a + a, a > 0;
    assert(qr - qx >= 1) by (nonlinear_arith) requires a * (qr - qx) > 0, a > 0;
  }
}

pub proof fn lemma_mod_plus_self(y: int, a: int)
  requires a > 0, y % a == 0
  ensures (y + a) % a == 0
{
  vstd::arithmetic::div_mod::lemma_mod_add_multiples_vanish(y, a);
}

pub open spec fn spec_header_offset<H>(reserved: int, unify: bool) -> int {
  if unify { align_up(reserved, align_of::<H>() as int) + align_of::<H>() as int } else { reserved + 1 }
}
pub open spec fn spec_data_offset<H>(reserved: int, unify: bool) -> int {
  if unify { spec_header_offset::<H>(reserved, true) + size_of::<H>() as int } else { reserved + 1 }
}

/// a non-zero size that is a multiple of the alignment is at least the alignment
pub proof fn lemma_size_ge_align<T>()
  requires layout_ok::<T>()
  ensures size_of::<T>() > 0 ==> size_of::<T>() >= align_of::<T>()
{
  let s = size_of::<T>() as int; let a = align_of::<T>() as int;
  if s > 0 && s < a { vstd::arithmetic::div_mod::lemma_small_mod(s as nat, a as nat); }
}
