
// ---- Buffer accessors (real bodies) ---------------------------------------------------------------------------
//@@fn file=bytes.rs src=expanded scope="%BUFSCOPE%" name=capacity rename=capacity%SFX% xlate=plain props=C14,C03
//@contract
  ensures r as int == self.cap(), // [C14 C03]
//@@end
//@@fn file=bytes.rs src=expanded scope="%BUFSCOPE%" name=offset rename=offset%SFX% xlate=plain props=C14,C03
//@contract
  ensures r as int == self.off(), // [C14 C03]
//@@end
//@@fn file=bytes.rs src=expanded scope="%BUFSCOPE%" name=buffer_offset rename=buffer_offset%SFX% xlate=plain props=C13
//@contract
  ensures r as int == self.allocated.memory_offset as int, // [C13]
//@@end
//@@fn file=bytes.rs src=expanded scope="%BUFSCOPE%" name=buffer_capacity rename=buffer_capacity%SFX% xlate=plain props=C13
//@contract
  ensures r as int == self.allocated.memory_size as int, // [C13]
//@@end
//@@fn file=bytes.rs src=expanded scope="%BUFSCOPE%" name=detach rename=detach%SFX% xlate=plain props=C13
//@contract
  ensures *final(self) == (Buf { detach: true, ..*old(self) }), // [C13]
//@@end

// ---- u8 / i8 / slices --------------------------------------------------------------------------------------------
//@@fn file=bytes.rs src=expanded scope="%SCOPE%" name=put_u8_unchecked rename=put_u8_unchecked%SFX% xlate=plain props=C14
//@subst /let buf = self\.buffer_mut\(\);\s*buf\[(.+?)\.\.(.+?)\]\.copy_from_slice\(&\[value\]\);/ => self.buf_copy_from_slice(\1, \2, &byte_arr(value));
//@contract
  requires old(self).inv(), old(self).len + 1 <= old(self).cap(), // [C14]
  ensures
    final(self).inv() && same_handle(*old(self), *final(self)), final(self).len == old(self).len + 1, // [C14]
    final(self).mem@ == splice(old(self).mem@, old(self).off() + old(self).len as int, seq![value]), // [C14]
//@after 1 /let SIZE: usize/
  proof { broadcast use vstd::layout::layout_of_primitives; }
//@@end
//@@fn file=bytes.rs src=expanded scope="%SCOPE%" name=put_u8 rename=put_u8%SFX% xlate=plain props=C14
//@subst /self\.put_u8_unchecked\(/ => self.put_u8_unchecked%SFX%(
//@subst? /self\.capacity\(\)/ => self.capacity%SFX%()
//@contract
  requires old(self).inv(),
  ensures
    r.is_err() <==> old(self).len + 1 > old(self).cap(), // [C14]
    r.is_err() ==> *final(self) == *old(self), // [C14]
    r.is_ok() ==> final(self).inv() && same_handle(*old(self), *final(self)) && final(self).len == old(self).len + 1
      && final(self).mem@ == splice(old(self).mem@, old(self).off() + old(self).len as int, seq![value]), // [C14]
//@after 1 /let SIZE: usize/
  proof { broadcast use vstd::layout::layout_of_primitives; }
//@@end
//@@fn file=bytes.rs src=expanded scope="%SCOPE%" name=put_i8 rename=put_i8%SFX% xlate=plain props=C14
//@subst /self\.put_u8\(/ => self.put_u8%SFX%(
//@contract
  requires old(self).inv(),
  ensures
    r.is_err() <==> old(self).len + 1 > old(self).cap(), // [C14]
    r.is_err() ==> *final(self) == *old(self), // [C14]
    r.is_ok() ==> final(self).inv() && same_handle(*old(self), *final(self)) && final(self).len == old(self).len + 1
      && final(self).mem@ == splice(old(self).mem@, old(self).off() + old(self).len as int, seq![value as u8]), // [C14]
//@@end
//@@fn file=bytes.rs src=expanded scope="%SCOPE%" name=put_slice_unchecked rename=put_slice_unchecked%SFX% xlate=plain props=C14
//@subst /let buf = self\.buffer_mut\(\);\s*buf\[(.+?)\.\.(.+?)\]\.copy_from_slice\(slice\);/ => self.buf_copy_from_slice(\1, \2, slice);
//@contract
  requires old(self).inv(), old(self).len + slice@.len() <= old(self).cap(), // [C14]
  ensures
    final(self).inv() && same_handle(*old(self), *final(self)), final(self).len == old(self).len + slice@.len(), // [C14]
    final(self).mem@ == splice(old(self).mem@, old(self).off() + old(self).len as int, slice@), // [C14]
//@@end
//@@fn file=bytes.rs src=expanded scope="%SCOPE%" name=put_slice rename=put_slice%SFX% xlate=plain props=C14
//@subst /self\.put_slice_unchecked\(/ => self.put_slice_unchecked%SFX%(
//@subst? /self\.capacity\(\)/ => self.capacity%SFX%()
//@contract
  requires old(self).inv(), slice@.len() <= isize::MAX as int, // Rust: no slice is larger than isize::MAX bytes
  ensures
    r.is_err() <==> old(self).len + slice@.len() > old(self).cap(), // [C14]
    r.is_err() ==> *final(self) == *old(self), // [C14]
    r.is_ok() ==> final(self).inv() && same_handle(*old(self), *final(self)) && final(self).len == old(self).len + slice@.len()
      && final(self).mem@ == splice(old(self).mem@, old(self).off() + old(self).len as int, slice@), // [C14]
//@@end
//@@fn file=bytes.rs src=expanded scope="%WRSCOPE%" name=write rename=io_write%SFX% xlate=plain props=C14
//@subst /self\.put_slice\(/ => self.put_slice%SFX%(
//@contract
  requires old(self).inv(), buf@.len() <= isize::MAX as int, // Rust: no slice is larger than isize::MAX bytes
  ensures
    r.is_err() <==> old(self).len + buf@.len() > old(self).cap(), // [C14]
    r.is_err() ==> *final(self) == *old(self), // [C14]
    r matches Ok(n) ==> n == buf@.len() && final(self).inv() && same_handle(*old(self), *final(self)) && final(self).len == old(self).len + buf@.len()
      && final(self).mem@ == splice(old(self).mem@, old(self).off() + old(self).len as int, buf@), // [C14]
//@@end
//@@fn file=bytes.rs src=expanded scope="%WRSCOPE%" name=flush rename=io_flush%SFX% xlate=plain props=C14
//@contract
  ensures r.is_ok(), *final(self) == *old(self), // [C14]
//@@end
//@@fn file=bytes.rs src=expanded scope="%SCOPE%" name=get_u8_unchecked rename=get_u8_unchecked%SFX% xlate=plain props=C14
//@subst /let buf = self\.buffer\(\);\s*let value = buf\[(.+?)\];/ => let value = self.buf_read_u8(\1);
//@contract
  requires old(self).inv(), old(self).len >= 1, // [C14]
  ensures
    final(self).inv() && same_handle(*old(self), *final(self)) && final(self).mem@ == old(self).mem@, final(self).len == old(self).len - 1, // [C14]
    r == old(self).mem@[old(self).off() + old(self).len as int - 1], // [C14]
//@@end
//@@fn file=bytes.rs src=expanded scope="%SCOPE%" name=get_u8 rename=get_u8%SFX% xlate=plain props=C14
//@subst /self\.get_u8_unchecked\(/ => self.get_u8_unchecked%SFX%(
//@contract
  requires old(self).inv(),
  ensures
    r.is_err() <==> old(self).len < 1, // [C14]
    r.is_err() ==> *final(self) == *old(self), // [C14]
    r matches Ok(v) ==> final(self).inv() && same_handle(*old(self), *final(self)) && final(self).mem@ == old(self).mem@ && final(self).len == old(self).len - 1
      && v == old(self).mem@[old(self).off() + old(self).len as int - 1], // [C14]
//@@end
//@@fn file=bytes.rs src=expanded scope="%SCOPE%" name=get_slice_unchecked rename=get_slice_unchecked%SFX% xlate=plain props=C14
//@subst /let buf = self\.buffer\(\);\s*&buf\[\.\.(.+?)\]/ => self.buf_read(0, \1)
//@contract
  requires self.inv(), size <= self.len, // [C14]
  ensures r@ == self.mem@.subrange(self.off(), self.off() + size as int), // [C14]
//@@end
//@@fn file=bytes.rs src=expanded scope="%SCOPE%" name=get_slice rename=get_slice%SFX% xlate=plain props=C14
//@subst /self\.get_slice_unchecked\(/ => self.get_slice_unchecked%SFX%(
//@contract
  requires self.inv(),
  ensures
    r.is_err() <==> self.len < size, // [C14]
    r matches Ok(s) ==> s@ == self.mem@.subrange(self.off(), self.off() + size as int), // [C14]
//@@end

// ---- set_len / align_to / put / put_aligned ------------------------------------------------------------------------
//@@fn file=bytes.rs src=expanded scope="%SCOPE%" name=set_len rename=set_len%SFX% xlate=plain props=C14
//@subst? /self\.capacity\(\)/ => self.capacity%SFX%()
//@subst /\{\s*::core::panicking::panic_fmt\(format_args!\("length out of bounds"\)\);\s*\}\s*;/ => rt_panic_documented();
//@subst /unsafe \{\s*core::ptr::write_bytes\(self\.as_mut_ptr\(\)\.add\((.+?)\), 0, (.+?)\)\s*\}\s*;/ => self.buf_write_bytes(\1, 0, \2);
//@contract
  requires old(self).inv(),
  ensures
    len as int <= old(self).cap(), // documented panic otherwise
    final(self).inv() && same_handle(*old(self), *final(self)), final(self).len == len, // [C14]
    final(self).mem@ == splice(old(self).mem@, old(self).off() + (if len > old(self).len { old(self).len as int } else { len as int }),
       zeros(if len > old(self).len { len as int - old(self).len as int } else { old(self).len as int - len as int })), // [C14]
//@after 1 /self\.buf_write_bytes\(olen, 0, len - olen\);/
      proof { assert(Seq::new((len - olen) as nat, |i: int| 0u8) =~= zeros(len as int - olen as int)); }
//@after 1 /self\.buf_write_bytes\(len, 0, olen - len\);/
      proof { assert(Seq::new((olen - len) as nat, |i: int| 0u8) =~= zeros(olen as int - len as int)); }
//@before 1 /return;/
    proof { assert(splice(self.mem@, self.off() + len as int, zeros(0)) =~= self.mem@); }
//@@end
//@@fn file=bytes.rs src=expanded scope="%SCOPE%" name=align_to rename=align_to%SFX% xlate=plain props=C14
//@subst /-> \(r: Result<core::ptr::NonNull<T>, InsufficientBuffer>\)/ => -> (r: Result<PtrAt, InsufficientBuffer>)
//@subst /core::ptr::NonNull::dangling\(\)/ => dangling_ptr()
//@subst /crate::align_offset::<T>/ => align_offset::<T>
//@subst /Ok\(unsafe \{\s*core::ptr::NonNull::new_unchecked\(self\.as_mut_ptr\(\)\.add\((.+?)\)\.cast::<T>\(\)\)\s*\}\)/ => Ok(self.buf_ptr_at::<T>(\1))
//@contract
  requires
    old(self).inv(), layout_ok::<T>(),
    old(self).mem@.len() + align_of::<T>() as int <= u32::MAX as int,
  ensures
    same_handle(*old(self), *final(self)) && final(self).mem@ == old(self).mem@,
    size_of::<T>() == 0 ==> r.is_ok() && final(self).len == old(self).len,
    r.is_err() ==> *final(self) == *old(self), // [C14]
    size_of::<T>() > 0 ==> (r.is_err() <==> align_up(old(self).off() + old(self).len as int, align_of::<T>() as int) > old(self).off() + old(self).cap()), // [C14]
    size_of::<T>() > 0 ==> (r matches Ok(p) ==> final(self).inv() && p.off@ == align_up(old(self).off() + old(self).len as int, align_of::<T>() as int)
      && p.off@ % (align_of::<T>() as int) == 0 && old(self).off() + old(self).len as int <= p.off@ <= old(self).off() + old(self).cap()
      && final(self).len as int == p.off@ - old(self).off()), // [C14]
//@@end
//@@fn file=bytes.rs src=expanded scope="%SCOPE%" name=put rename=put%SFX% xlate=plain props=C14
//@subst? /self\.capacity\(\)/ => self.capacity%SFX%()
//@subst /-> \(r: Result<&mut T, InsufficientBuffer>\)/ => -> (r: Result<(), InsufficientBuffer>)
//@subst /let ptr = self\.as_mut_ptr\(\)\.add\((.+?)\)\.cast::<T>\(\);\s*ptr\.write\(val\);/ => self.buf_write_val::<T>(\1, val);
//@subst /Ok\(&mut \*ptr\)/ => Ok(())
//@contract
  requires old(self).inv(), size_of::<T>() as int <= isize::MAX as int, // Rust: no type is larger than isize::MAX bytes
  ensures
    r.is_err() <==> old(self).len as int + size_of::<T>() as int > old(self).cap(), // [C14]
    r.is_err() ==> *final(self) == *old(self), // [C14]
    r.is_ok() ==> final(self).inv() && same_handle(*old(self), *final(self)) && final(self).len as int == old(self).len as int + size_of::<T>() as int
      && final(self).only_touched(*old(self), old(self).len as int, old(self).len as int + size_of::<T>() as int), // [C14]
//@@end
//@@fn file=bytes.rs src=expanded scope="%SCOPE%" name=put_aligned rename=put_aligned%SFX% xlate=plain props=C14
//@subst? /self\.capacity\(\)/ => self.capacity%SFX%()
//@subst /self\.align_to::<T>\(\)/ => self.align_to%SFX%::<T>()
//@subst /-> \(r: Result<&mut T, InsufficientBuffer>\)/ => -> (r: Result<(), InsufficientBuffer>)
//@subst /let mut ptr = / => let ptr = 
//@subst /ptr\.as_ptr\(\)\.write\(val\);/ => self.buf_write_val::<T>(self.len, val);
//@subst /Ok\(ptr\.as_mut\(\)\)/ => Ok(())
//@contract
  requires
    old(self).inv(), layout_ok::<T>(), size_of::<T>() > 0, size_of::<T>() as int <= isize::MAX as int,
    old(self).mem@.len() + align_of::<T>() as int <= u32::MAX as int,
  ensures
    r.is_err() ==> *final(self) == *old(self), // [C14]
    r.is_err() <==> align_up(old(self).off() + old(self).len as int, align_of::<T>() as int) + size_of::<T>() as int > old(self).off() + old(self).cap(), // [C14]
    r.is_ok() ==> final(self).inv() && same_handle(*old(self), *final(self))
      && final(self).len as int == align_up(old(self).off() + old(self).len as int, align_of::<T>() as int) - old(self).off() + size_of::<T>() as int
      && final(self).only_touched(*old(self), final(self).len as int - size_of::<T>() as int, final(self).len as int), // [C14]
//@@end
