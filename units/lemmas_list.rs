// ---- list lemmas over views (hand-written; proof code only) ----------------------------------------

pub open spec fn old_idx(i: int, k: int) -> int { if k <= i { k } else { k - 1 } }

pub proof fn lemma_ins_index(l0: Seq<Node>, i: int, n: Node, k: int)
  requires -1 <= i < l0.len(), 0 <= k <= l0.len()
  ensures l0.insert(i + 1, n)[k] == (if k == i + 1 { n } else { l0[old_idx(i, k)] })
{}

pub proof fn lemma_rem_index(l0: Seq<Node>, i: int, k: int)
  requires 0 <= i < l0.len(), 0 <= k < l0.len() - 1
  ensures l0.remove(i)[k] == (if k < i { l0[k] } else { l0[k + 1] })
{}

/// all list cells keep their word when bytes change only inside [lo,hi) and no node header meets [lo,hi)
pub proof fn lemma_words_preserved(a: AV, s: SV, t: SV, lo: int, hi: int)
  requires
    same_outside(s.bytes, t.bytes, lo, hi), s.sentinel == t.sentinel, s.bytes.len() == a.cap,
    nodes_ok(a, s), s.allocated <= a.cap,
    forall|k: int| 0 <= k < s.list.len() ==> ((#[trigger] s.list[k]).0 as int + 8 <= lo || hi <= s.list[k].0 as int),
  ensures
    forall|k: int| -1 <= k < s.list.len() ==> word(t, #[trigger] cell_of(s.list, k)) == word(s, cell_of(s.list, k)),
{
  assert forall|k: int| -1 <= k < s.list.len() implies word(t, #[trigger] cell_of(s.list, k)) == word(s, cell_of(s.list, k)) by {
    if k >= 0 { assert(node_ok(a, s, s.list[k])); }
    lemma_cell_frame(s, t, lo, hi, cell_of(s.list, k));
  }
}

/// as above, but one list cell `x` (index) may have changed
pub proof fn lemma_words_preserved_except(a: AV, s: SV, t: SV, lo: int, hi: int, x: int)
  requires
    same_outside(s.bytes, t.bytes, lo, hi), s.bytes.len() == a.cap,
    x != -1 ==> s.sentinel == t.sentinel,
    nodes_ok(a, s), s.allocated <= a.cap,
    forall|k: int| 0 <= k < s.list.len() && k != x ==> ((#[trigger] s.list[k]).0 as int + 8 <= lo || hi <= s.list[k].0 as int),
  ensures
    forall|k: int| -1 <= k < s.list.len() && k != x ==> word(t, #[trigger] cell_of(s.list, k)) == word(s, cell_of(s.list, k)),
{
  assert forall|k: int| -1 <= k < s.list.len() && k != x implies word(t, #[trigger] cell_of(s.list, k)) == word(s, cell_of(s.list, k)) by {
    if k >= 0 {
      assert(node_ok(a, s, s.list[k]));
      lemma_word_frame(s.bytes, t.bytes, lo, hi, s.list[k].0 as int);
      assert(cell_of(s.list, k) == CellRef::Node(s.list[k].0));
    } else {
      assert(cell_of(s.list, k) == CellRef::Sentinel);
    }
  }
}

/// distinct list nodes have disjoint 8-byte headers
pub proof fn lemma_headers_apart(l: Seq<Node>, x: int, lo: int)
  requires disjoint(l), 0 <= x < l.len(), lo == l[x].0 as int
  ensures forall|k: int| 0 <= k < l.len() && k != x ==> ((#[trigger] l[k]).0 as int + 8 <= lo || lo + 8 <= l[k].0 as int)
{
  assert forall|k: int| 0 <= k < l.len() && k != x implies ((#[trigger] l[k]).0 as int + 8 <= lo || lo + 8 <= l[k].0 as int) by {
    if k < x { assert(apart(l[k], l[x])); } else { assert(apart(l[x], l[k])); }
  }
}

// ---- insertion -----------------------------------------------------------------------------------------

pub open spec fn ins_pre(a: AV, s0: SV, s2: SV, i: int, n: Node) -> bool {
  &&& wf_shape(a, s0)
  &&& geom(a, s2) && s2.allocated == s0.allocated
  &&& -1 <= i < s0.list.len()
  &&& node_ok(a, s2, n)
  &&& clear_of_list(s0.list, n.0 as int, node_end(n))
  &&& s2.list == s0.list.insert(i + 1, n)
  &&& word(s2, CellRef::Node(n.0)) == enc(n.1, next_of(s0.list, i))
  &&& word(s2, cell_of(s0.list, i)) == enc(size_of_cell(s0.list, i), n.0)
  &&& forall|k: int| -1 <= k < s0.list.len() && k != i ==> word(s2, #[trigger] cell_of(s0.list, k)) == word(s0, cell_of(s0.list, k))
}

pub proof fn lemma_insert_nodes(a: AV, s0: SV, s2: SV, i: int, n: Node)
  requires ins_pre(a, s0, s2, i, n)
  ensures nodes_ok(a, s2)
{
  let l0 = s0.list; let l = s2.list;
  assert forall|k: int| 0 <= k < l.len() implies node_ok(a, s2, #[trigger] l[k]) by {
    lemma_ins_index(l0, i, n, k);
    if k != i + 1 { assert(node_ok(a, s0, l0[old_idx(i, k)])); }
  }
}

pub proof fn lemma_insert_disjoint(a: AV, s0: SV, s2: SV, i: int, n: Node)
  requires ins_pre(a, s0, s2, i, n)
  ensures disjoint(s2.list)
{
  let l0 = s0.list; let l = s2.list;
  assert forall|p: int, q: int| 0 <= p < q < l.len() implies apart(#[trigger] l[p], #[trigger] l[q]) by {
    lemma_ins_index(l0, i, n, p);
    lemma_ins_index(l0, i, n, q);
    let pp = old_idx(i, p); let qq = old_idx(i, q);
    if p == i + 1 { let x = l0[qq]; }
    else if q == i + 1 { let x = l0[pp]; }
    else { assert(pp < qq); assert(apart(l0[pp], l0[qq])); }
  }
}

pub proof fn lemma_insert_linked(a: AV, s0: SV, s2: SV, i: int, n: Node)
  requires ins_pre(a, s0, s2, i, n)
  ensures linked(s2)
{
  let l0 = s0.list; let l = s2.list;
  assert forall|k: int| -1 <= k < l.len() implies word(s2, #[trigger] cell_of(l, k)) == enc(size_of_cell(l, k), next_of(l, k)) by {
    if k >= 0 { lemma_ins_index(l0, i, n, k); }
    if k + 1 < l.len() { lemma_ins_index(l0, i, n, k + 1); }
    if k == i + 1 {
    } else {
      let kk = old_idx(i, k);
      assert(cell_of(l, k) == cell_of(l0, kk));
      assert(word(s0, cell_of(l0, kk)) == enc(size_of_cell(l0, kk), next_of(l0, kk)));
    }
  }
}

pub proof fn lemma_insert_shape(a: AV, s0: SV, s2: SV, i: int, n: Node)
  requires ins_pre(a, s0, s2, i, n)
  ensures wf_shape(a, s2)
{
  lemma_insert_nodes(a, s0, s2, i, n);
  lemma_insert_disjoint(a, s0, s2, i, n);
  lemma_insert_linked(a, s0, s2, i, n);
}

pub proof fn lemma_insert_order(a: AV, s0: SV, s2: SV, i: int, n: Node, asc: bool)
  requires
    wf_order(a, s0), -1 <= i < s0.list.len(), s2.list == s0.list.insert(i + 1, n),
    a.freelist == (if asc { Freelist::Pessimistic } else { Freelist::Optimistic }),
    i + 1 == first_idx(s0.list, n.1, asc),
  ensures wf_order(a, s2)
{
  let l0 = s0.list; let l = s2.list;
  lemma_first_idx_props_from(l0, n.1, asc, 0);
  if asc {
    assert forall|p: int, q: int| 0 <= p <= q < l.len() implies (#[trigger] l[p]).1 <= (#[trigger] l[q]).1 by {
      lemma_ins_index(l0, i, n, p);
      lemma_ins_index(l0, i, n, q);
      let pp = old_idx(i, p); let qq = old_idx(i, q);
      if p == i + 1 && q == i + 1 {}
      else if p == i + 1 { assert(l0[i + 1].1 <= l0[qq].1); }
      else if q == i + 1 { assert(!chk(asc, n.1, l0[pp].1)); }
      else { assert(pp <= qq); assert(l0[pp].1 <= l0[qq].1); }
    }
  } else {
    assert forall|p: int, q: int| 0 <= p <= q < l.len() implies (#[trigger] l[p]).1 >= (#[trigger] l[q]).1 by {
      lemma_ins_index(l0, i, n, p);
      lemma_ins_index(l0, i, n, q);
      let pp = old_idx(i, p); let qq = old_idx(i, q);
      if p == i + 1 && q == i + 1 {}
      else if p == i + 1 { assert(l0[i + 1].1 >= l0[qq].1); }
      else if q == i + 1 { assert(!chk(asc, n.1, l0[pp].1)); }
      else { assert(pp <= qq); assert(l0[pp].1 >= l0[qq].1); }
    }
  }
}

// ---- removal ---------------------------------------------------------------------------------------------

pub open spec fn rem_pre(a: AV, s0: SV, s2: SV, i: int) -> bool {
  &&& wf_shape(a, s0)
  &&& geom(a, s2) && s2.allocated == s0.allocated
  &&& 0 <= i < s0.list.len()
  &&& s2.list == s0.list.remove(i)
  &&& word(s2, cell_of(s0.list, i - 1)) == enc(size_of_cell(s0.list, i - 1), next_of(s0.list, i))
  &&& forall|k: int| -1 <= k < s0.list.len() && k != i - 1 && k != i ==> word(s2, #[trigger] cell_of(s0.list, k)) == word(s0, cell_of(s0.list, k))
}

pub proof fn lemma_remove_shape(a: AV, s0: SV, s2: SV, i: int)
  requires rem_pre(a, s0, s2, i)
  ensures wf_shape(a, s2), clear_of_list(s2.list, s0.list[i].0 as int, node_end(s0.list[i]))
{
  let l0 = s0.list; let l = s2.list;
  assert forall|k: int| 0 <= k < l.len() implies node_ok(a, s2, #[trigger] l[k]) by {
    lemma_rem_index(l0, i, k);
    if k < i { assert(node_ok(a, s0, l0[k])); } else { assert(node_ok(a, s0, l0[k + 1])); }
  }
  assert forall|p: int, q: int| 0 <= p < q < l.len() implies apart(#[trigger] l[p], #[trigger] l[q]) by {
    lemma_rem_index(l0, i, p);
    lemma_rem_index(l0, i, q);
    let pp = if p < i { p } else { p + 1 }; let qq = if q < i { q } else { q + 1 };
    assert(apart(l0[pp], l0[qq]));
  }
  assert forall|k: int| -1 <= k < l.len() implies word(s2, #[trigger] cell_of(l, k)) == enc(size_of_cell(l, k), next_of(l, k)) by {
    if k >= 0 { lemma_rem_index(l0, i, k); }
    if k + 1 < l.len() { lemma_rem_index(l0, i, k + 1); }
    let kk = if k < i { k } else { k + 1 };
    assert(cell_of(l, k) == cell_of(l0, kk));
    assert(word(s0, cell_of(l0, kk)) == enc(size_of_cell(l0, kk), next_of(l0, kk)));
    if kk == i - 1 {
    } else {
      assert(word(s2, cell_of(l0, kk)) == word(s0, cell_of(l0, kk)));
    }
  }
  assert forall|k: int| 0 <= k < l.len() implies node_end(#[trigger] l[k]) <= l0[i].0 as int || node_end(l0[i]) <= l[k].0 as int by {
    lemma_rem_index(l0, i, k);
    if k < i { assert(apart(l0[k], l0[i])); } else { assert(apart(l0[i], l0[k + 1])); }
  }
}

pub proof fn lemma_remove_order(a: AV, s0: SV, s2: SV, i: int)
  requires wf_order(a, s0), 0 <= i < s0.list.len(), s2.list == s0.list.remove(i)
  ensures wf_order(a, s2)
{
  let l0 = s0.list; let l = s2.list;
  match a.freelist {
    Freelist::None => {},
    Freelist::Optimistic => {
      assert forall|p: int, q: int| 0 <= p <= q < l.len() implies (#[trigger] l[p]).1 >= (#[trigger] l[q]).1 by {
        lemma_rem_index(l0, i, p); lemma_rem_index(l0, i, q);
        let pp = if p < i { p } else { p + 1 }; let qq = if q < i { q } else { q + 1 };
        assert(l0[pp].1 >= l0[qq].1);
      }
    },
    Freelist::Pessimistic => {
      assert forall|p: int, q: int| 0 <= p <= q < l.len() implies (#[trigger] l[p]).1 <= (#[trigger] l[q]).1 by {
        lemma_rem_index(l0, i, p); lemma_rem_index(l0, i, q);
        let pp = if p < i { p } else { p + 1 }; let qq = if q < i { q } else { q + 1 };
        assert(l0[pp].1 <= l0[qq].1);
      }
    },
  }
}

/// wf is insensitive to byte changes that stay away from every node header and to header counters
pub proof fn lemma_wf_frame(a: AV, s: SV, t: SV, lo: int, hi: int)
  requires wf(a, s), geom(a, t), t.allocated >= s.allocated, t.list == s.list,
    same_outside(s.bytes, t.bytes, lo, hi), s.sentinel == t.sentinel,
    forall|k: int| 0 <= k < s.list.len() ==> ((#[trigger] s.list[k]).0 as int + 8 <= lo || hi <= s.list[k].0 as int),
  ensures wf(a, t)
{
  lemma_words_preserved(a, s, t, lo, hi);
  assert forall|k: int| 0 <= k < t.list.len() implies node_ok(a, t, #[trigger] t.list[k]) by { assert(node_ok(a, s, s.list[k])); }
  assert forall|k: int| -1 <= k < t.list.len() implies word(t, #[trigger] cell_of(t.list, k)) == enc(size_of_cell(t.list, k), next_of(t.list, k)) by {
    assert(word(s, cell_of(s.list, k)) == enc(size_of_cell(s.list, k), next_of(s.list, k)));
  }
}

// ---- byte-level step lemmas used by the insert / remove code paths -------------------------------------------

/// bytes may differ only inside [lo,hi) or inside a segment of list `l`
pub open spec fn frame_ok(l: Seq<Node>, b0: Seq<u8>, b1: Seq<u8>, lo: int, hi: int) -> bool {
  b0.len() == b1.len() && forall|b: int| 0 <= b < b0.len() ==> b1[b] == b0[b] || lo <= b < hi || #[trigger] in_list(l, b)
}

pub open spec fn store_view(s: SV, c: CellRef, v: u64) -> SV {
  match c {
    CellRef::Sentinel => SV { sentinel: v, ..s },
    CellRef::Node(o) => SV { bytes: splice(s.bytes, o as int, b64(v)), ..s },
  }
}

/// the two stores of an insertion (new node word, then predecessor link) establish ins_pre
pub proof fn lemma_insert_bytes(a: AV, s0: SV, s1: SV, s2: SV, i: int, n: Node)
  requires
    wf_shape(a, s0), -1 <= i < s0.list.len(),
    node_ok(a, s0, n), clear_of_list(s0.list, n.0 as int, node_end(n)),
    s1 == store_view(s0, CellRef::Node(n.0), enc(n.1, next_of(s0.list, i))),
    s2 == (SV { list: s0.list.insert(i + 1, n), ..store_view(s1, cell_of(s0.list, i), enc(size_of_cell(s0.list, i), n.0)) }),
  ensures
    ins_pre(a, s0, s2, i, n),
    frame_ok(s0.list, s0.bytes, s2.bytes, n.0 as int, n.0 as int + 8),
    same_hdr(s0, s2),
{
  let l = s0.list;
  let v1 = enc(n.1, next_of(l, i));
  let v2 = enc(size_of_cell(l, i), n.0);
  lemma_word_written(s0.bytes, n.0 as int, v1);
  // after store 1: all list cells keep their word (n's header is clear of the list)
  assert forall|k: int| 0 <= k < l.len() implies ((#[trigger] l[k]).0 as int + 8 <= n.0 as int || n.0 as int + 8 <= l[k].0 as int) by {}
  lemma_words_preserved(a, s0, s1, n.0 as int, n.0 as int + 8);
  if i >= 0 {
    let o = l[i].0 as int;
    assert(node_ok(a, s0, l[i]));
    lemma_word_written(s1.bytes, o, v2);
    lemma_headers_apart(l, i, o);
    // s1 has the same list and header as s0, node_ok carries over
    assert(nodes_ok(a, s1)) by { assert forall|k: int| 0 <= k < s1.list.len() implies node_ok(a, s1, #[trigger] s1.list[k]) by { assert(node_ok(a, s0, l[k])); } }
    lemma_words_preserved_except(a, s1, s2, o, o + 8, i);
    // new node word survives store 2
    lemma_word_frame(s1.bytes, s2.bytes, o, o + 8, n.0 as int);
    assert forall|k: int| -1 <= k < l.len() && k != i implies word(s2, #[trigger] cell_of(l, k)) == word(s0, cell_of(l, k)) by {
      assert(word(s1, cell_of(l, k)) == word(s0, cell_of(l, k)));
      assert(word(s2, cell_of(s1.list, k)) == word(s1, cell_of(s1.list, k)));
    }
    assert(frame_ok(s0.list, s0.bytes, s2.bytes, n.0 as int, n.0 as int + 8)) by {
      assert forall|b: int| 0 <= b < s0.bytes.len() implies s2.bytes[b] == s0.bytes[b] || n.0 as int <= b < n.0 as int + 8 || #[trigger] in_list(l, b) by {
        if o <= b < o + 8 { assert(in_node(l[i], b)); }
      }
    }
  } else {
    assert forall|k: int| -1 <= k < l.len() && k != i implies word(s2, #[trigger] cell_of(l, k)) == word(s0, cell_of(l, k)) by {
      assert(word(s1, cell_of(l, k)) == word(s0, cell_of(l, k)));
    }
  }
}

/// the single store of a removal (predecessor link skips node i) establishes rem_pre
pub proof fn lemma_remove_bytes(a: AV, s0: SV, s2: SV, i: int)
  requires
    wf_shape(a, s0), 0 <= i < s0.list.len(),
    s2 == (SV { list: s0.list.remove(i), ..store_view(s0, cell_of(s0.list, i - 1), enc(size_of_cell(s0.list, i - 1), next_of(s0.list, i))) }),
  ensures
    rem_pre(a, s0, s2, i),
    frame_ok(s0.list, s0.bytes, s2.bytes, 0, 0),
    same_hdr(s0, s2),
    i == 0 ==> s2.bytes == s0.bytes,
{
  let l = s0.list;
  let v = enc(size_of_cell(l, i - 1), next_of(l, i));
  if i >= 1 {
    let o = l[i - 1].0 as int;
    assert(node_ok(a, s0, l[i - 1]));
    lemma_word_written(s0.bytes, o, v);
    lemma_headers_apart(l, i - 1, o);
    lemma_words_preserved_except(a, s0, s2, o, o + 8, i - 1);
    assert(frame_ok(s0.list, s0.bytes, s2.bytes, 0, 0)) by {
      assert forall|b: int| 0 <= b < s0.bytes.len() implies s2.bytes[b] == s0.bytes[b] || 0 <= b < 0 || #[trigger] in_list(l, b) by {
        if o <= b < o + 8 { assert(in_node(l[i - 1], b)); }
      }
    }
  }
}

pub proof fn lemma_frame_widen(l: Seq<Node>, b0: Seq<u8>, b1: Seq<u8>, lo: int, hi: int, lo2: int, hi2: int)
  requires frame_ok(l, b0, b1, lo, hi), lo2 <= lo, hi <= hi2
  ensures frame_ok(l, b0, b1, lo2, hi2)
{}

/// arithmetic facts about the node a released range [offset, offset+size) turns into
pub proof fn lemma_seg_node_bounds(offset: int, size: int)
  requires offset >= 0
  ensures 0 <= seg_pad(offset) < 8, align_up(offset, 8) % 8 == 0, align_up(offset, 8) >= offset
{}

pub proof fn lemma_seg_node_props(a: AV, s: SV, offset: int, size: int)
  requires
    geom(a, s), seg_valid(s, offset, size), a.data_offset <= offset, offset + size <= s.allocated,
    clear_of_list(s.list, offset, offset + size),
  ensures ({
    let n = seg_node(offset, size);
    &&& node_ok(a, s, n)
    &&& n.0 as int == align_up(offset, 8) && n.1 as int == size - seg_pad(offset) - 8
    &&& offset <= n.0 as int && node_end(n) == offset + size
    &&& clear_of_list(s.list, n.0 as int, node_end(n))
  })
{
  lemma_seg_node_bounds(offset, size);
}

// ---- lemmas for the slow paths -------------------------------------------------------------------------------

pub proof fn lemma_in_list_remove(l: Seq<Node>, i: int)
  requires 0 <= i < l.len()
  ensures forall|b: int| #[trigger] in_list(l.remove(i), b) ==> in_list(l, b)
{
  let l1 = l.remove(i);
  assert forall|b: int| #[trigger] in_list(l1, b) implies in_list(l, b) by {
    let k = choose|k: int| 0 <= k < l1.len() && in_node(#[trigger] l1[k], b);
    lemma_rem_index(l, i, k);
    if k < i { assert(in_node(l[k], b)); } else { assert(in_node(l[k + 1], b)); }
  }
}

/// two consecutive frames: second step only touches [lo,hi) (inside old segment x) or segments of l1 (all inside segments of l)
pub proof fn lemma_frame_compose(l: Seq<Node>, l1: Seq<Node>, b0: Seq<u8>, b1: Seq<u8>, b2: Seq<u8>, lo: int, hi: int, x: int)
  requires
    frame_ok(l, b0, b1, 0, 0), frame_ok(l1, b1, b2, lo, hi),
    forall|b: int| #[trigger] in_list(l1, b) ==> in_list(l, b),
    0 <= x < l.len(), lo >= hi || (l[x].0 as int <= lo && hi <= node_end(l[x])),
  ensures frame_ok(l, b0, b2, 0, 0)
{
  assert forall|b: int| 0 <= b < b0.len() implies b2[b] == b0[b] || 0 <= b < 0 || #[trigger] in_list(l, b) by {
    if lo <= b < hi { assert(in_node(l[x], b)); }
    if b2[b] != b1[b] && !(lo <= b < hi) { assert(in_list(l1, b)); }
  }
}

pub proof fn lemma_clear_of_list_insert(l: Seq<Node>, j: int, n: Node, lo: int, hi: int)
  requires clear_of_list(l, lo, hi), 0 <= j <= l.len(), node_end(n) <= lo || hi <= n.0 as int
  ensures clear_of_list(l.insert(j, n), lo, hi)
{
  let l2 = l.insert(j, n);
  assert forall|k: int| 0 <= k < l2.len() implies node_end(#[trigger] l2[k]) <= lo || hi <= l2[k].0 as int by {
    lemma_ins_index(l, j - 1, n, k);
    if k != j { let x = l[old_idx(j - 1, k)]; }
  }
}

/// headers of every node are outside [lo,hi) when the whole nodes are
pub proof fn lemma_clear_headers(l: Seq<Node>, lo: int, hi: int)
  requires clear_of_list(l, lo, hi)
  ensures forall|k: int| 0 <= k < l.len() ==> ((#[trigger] l[k]).0 as int + 8 <= lo || hi <= l[k].0 as int)
{
  assert forall|k: int| 0 <= k < l.len() implies ((#[trigger] l[k]).0 as int + 8 <= lo || hi <= l[k].0 as int) by {
    let x = l[k];
    assert(node_end(x) <= lo || hi <= x.0 as int);
  }
}

pub proof fn lemma_first_idx_bounds(l: Seq<Node>, val: u32, asc: bool)
  ensures 0 <= first_idx(l, val, asc) <= l.len()
{ lemma_first_idx_props_from(l, val, asc, 0); }

pub proof fn lemma_in_list_insert(l: Seq<Node>, j: int, n: Node)
  requires 0 <= j <= l.len()
  ensures forall|b: int| #[trigger] in_list(l.insert(j, n), b) ==> in_list(l, b) || in_node(n, b)
{
  let l2 = l.insert(j, n);
  assert forall|b: int| #[trigger] in_list(l2, b) implies in_list(l, b) || in_node(n, b) by {
    let k = choose|k: int| 0 <= k < l2.len() && in_node(#[trigger] l2[k], b);
    lemma_ins_index(l, j - 1, n, k);
    if k != j { assert(in_node(l[old_idx(j - 1, k)], b)); }
  }
}

/// free space only shrinks on the slow path: list' is l.remove(k), optionally plus a node inside old node k
pub proof fn lemma_slow_free_shrinks(s0: SV, s1: SV, k: int, split: bool, n2: Node, j: int)
  requires
    0 <= k < s0.list.len(), s1.allocated == s0.allocated,
    split ==> 0 <= j <= s0.list.remove(k).len() && s0.list[k].0 as int <= n2.0 as int && node_end(n2) <= node_end(s0.list[k]),
    s1.list == (if split { s0.list.remove(k).insert(j, n2) } else { s0.list.remove(k) }),
  ensures free_shrinks(s0, s1)
{
  let l = s0.list; let l1 = l.remove(k);
  lemma_in_list_remove(l, k);
  if split { lemma_in_list_insert(l1, j, n2); }
  assert forall|b: int| #[trigger] in_list(s1.list, b) implies in_list(l, b) || b >= s0.allocated by {
    if split && !in_list(l1, b) { assert(in_node(n2, b)); assert(in_node(l[k], b)); }
  }
}

pub proof fn lemma_sum_nonneg(l: Seq<Node>)
  ensures sum_sizes(l) >= 0
  decreases l.len()
{ if l.len() > 0 { lemma_sum_nonneg(l.remove(0)); } }

pub proof fn lemma_nodes_below(a: AV, s: SV)
  requires nodes_ok(a, s)
  ensures
    forall|k: int| 0 <= k < s.list.len() ==> ((#[trigger] s.list[k]).0 as int + 8 <= s.allocated),
    clear_of_list(s.list, s.allocated, a.cap),
{
  assert forall|k: int| 0 <= k < s.list.len() implies ((#[trigger] s.list[k]).0 as int + 8 <= s.allocated) by { assert(node_ok(a, s, s.list[k])); }
  assert forall|k: int| 0 <= k < s.list.len() implies node_end(#[trigger] s.list[k]) <= s.allocated || a.cap <= s.list[k].0 as int by { assert(node_ok(a, s, s.list[k])); }
}

pub proof fn lemma_seg_valid_extent(a: AV, s: SV, offset: int, size: int)
  requires geom(a, s), extent_ok(a, s, offset, size)
  ensures seg_valid(s, offset, size) ==> a.data_offset <= offset && offset + size <= s.allocated && clear_of_list(s.list, offset, offset + size)
{}


pub proof fn lemma_clear_narrow(l: Seq<Node>, lo: int, hi: int, lo2: int, hi2: int)
  requires clear_of_list(l, lo, hi), lo <= lo2, hi2 <= hi
  ensures clear_of_list(l, lo2, hi2)
{
  assert forall|i: int| 0 <= i < l.len() implies node_end(#[trigger] l[i]) <= lo2 || hi2 <= l[i].0 as int by {
    let x = l[i]; assert(node_end(x) <= lo || hi <= x.0 as int);
  }
}

pub proof fn lemma_align_up_props(x: int, a: int)
  requires a > 0, x >= 0
  ensures align_up(x, a) >= x, align_up(x, a) - x < a, align_up(x, a) % a == 0
{
  vstd::arithmetic::div_mod::lemma_fundamental_div_mod(x, a);
  if x % a != 0 {
    let q = x / a;
    assert(x + (a - x % a) == a * (q + 1)) by (nonlinear_arith) requires x == a * q + x % a;
    vstd::arithmetic::div_mod::lemma_mod_multiples_basic(q + 1, a);
    assert((a * (q + 1)) % a == 0) by { assert(a * (q + 1) == (q + 1) * a) by (nonlinear_arith); }
  }
}

pub proof fn lemma_free_grows_insert(s0: SV, s1: SV, j: int, n: Node, lo: int, hi: int)
  requires s1.allocated == s0.allocated, 0 <= j <= s0.list.len(), s1.list == s0.list.insert(j, n), lo <= n.0 as int, node_end(n) <= hi
  ensures free_grows(s0, s1, lo, hi)
{
  lemma_in_list_insert(s0.list, j, n);
  assert forall|b: int| #[trigger] in_free(s1, b) implies in_free(s0, b) || lo <= b < hi by {
    if b < s1.allocated { assert(in_list(s1.list, b)); }
  }
}

/// release of the topmost allocation: moving the cursor back to `offset` keeps the invariant
pub proof fn lemma_dealloc_top(a: AV, s0: SV, s1: SV, offset: int, size: int)
  requires wf(a, s0), extent_ok(a, s0, offset, size), s0.allocated == offset + size, s1 == (SV { allocated: offset, ..s0 })
  ensures wf(a, s1), free_grows(s0, s1, offset, offset + size), frame_ok(s0.list, s0.bytes, s1.bytes, offset, offset + size)
{
  assert(offset >= a.data_offset);
  assert forall|k: int| 0 <= k < s1.list.len() implies node_ok(a, s1, #[trigger] s1.list[k]) by {
    let x = s0.list[k];
    assert(node_ok(a, s0, x));
    assert(node_end(x) <= offset || offset + size <= x.0 as int);
  }
  assert forall|k: int| -1 <= k < s1.list.len() implies word(s1, #[trigger] cell_of(s1.list, k)) == enc(size_of_cell(s1.list, k), next_of(s1.list, k)) by {
    assert(word(s0, cell_of(s0.list, k)) == enc(size_of_cell(s0.list, k), next_of(s0.list, k)));
  }
}

// ---- sync flavour: two-step removal (mark the node word, then unlink) -----------------------------------------

/// overwriting the word of list node i leaves every other list cell's word unchanged
pub proof fn lemma_mark_frame(a: AV, s0: SV, s1: SV, i: int, mark: u64)
  requires wf_shape(a, s0), 0 <= i < s0.list.len(), s1 == store_view(s0, CellRef::Node(s0.list[i].0), mark)
  ensures
    forall|k: int| -1 <= k < s0.list.len() && k != i ==> word(s1, #[trigger] cell_of(s0.list, k)) == word(s0, cell_of(s0.list, k)),
    frame_ok(s0.list, s0.bytes, s1.bytes, 0, 0), same_hdr(s0, s1), s1.list == s0.list,
{
  let l = s0.list; let o = l[i].0 as int;
  assert(node_ok(a, s0, l[i]));
  lemma_word_written(s0.bytes, o, mark);
  lemma_headers_apart(l, i, o);
  lemma_words_preserved_except(a, s0, s1, o, o + 8, i);
  assert forall|b: int| 0 <= b < s0.bytes.len() implies s1.bytes[b] == s0.bytes[b] || 0 <= b < 0 || #[trigger] in_list(l, b) by {
    if o <= b < o + 8 { assert(in_node(l[i], b)); }
  }
}

pub proof fn lemma_remove_bytes2(a: AV, s0: SV, s1: SV, s2: SV, i: int, mark: u64)
  requires
    wf_shape(a, s0), 0 <= i < s0.list.len(),
    s1 == store_view(s0, CellRef::Node(s0.list[i].0), mark),
    s2 == (SV { list: s0.list.remove(i), ..store_view(s1, cell_of(s0.list, i - 1), enc(size_of_cell(s0.list, i - 1), next_of(s0.list, i))) }),
  ensures
    rem_pre(a, s0, s2, i),
    frame_ok(s0.list, s0.bytes, s2.bytes, 0, 0),
    same_hdr(s0, s2),
{
  let l = s0.list;
  let v = enc(size_of_cell(l, i - 1), next_of(l, i));
  lemma_mark_frame(a, s0, s1, i, mark);
  assert(nodes_ok(a, s1)) by { assert forall|k: int| 0 <= k < s1.list.len() implies node_ok(a, s1, #[trigger] s1.list[k]) by { assert(node_ok(a, s0, l[k])); } }
  if i >= 1 {
    let o = l[i - 1].0 as int;
    assert(node_ok(a, s0, l[i - 1]));
    lemma_word_written(s1.bytes, o, v);
    lemma_headers_apart(l, i - 1, o);
    lemma_words_preserved_except(a, s1, s2, o, o + 8, i - 1);
    assert forall|k: int| -1 <= k < l.len() && k != i - 1 && k != i implies word(s2, #[trigger] cell_of(l, k)) == word(s0, cell_of(l, k)) by {
      assert(word(s1, cell_of(l, k)) == word(s0, cell_of(l, k)));
      assert(word(s2, cell_of(s1.list, k)) == word(s1, cell_of(s1.list, k)));
    }
    assert forall|b: int| 0 <= b < s0.bytes.len() implies s2.bytes[b] == s0.bytes[b] || 0 <= b < 0 || #[trigger] in_list(l, b) by {
      if o <= b < o + 8 { assert(in_node(l[i - 1], b)); }
      if l[i].0 as int <= b < l[i].0 as int + 8 { assert(node_ok(a, s0, l[i])); assert(in_node(l[i], b)); }
    }
  } else {
    assert forall|k: int| -1 <= k < l.len() && k != i - 1 && k != i implies word(s2, #[trigger] cell_of(l, k)) == word(s0, cell_of(l, k)) by {
      assert(word(s1, cell_of(l, k)) == word(s0, cell_of(l, k)));
    }
  }
}

// ---- discard_freelist loop -------------------------------------------------------------------------------------------

pub open spec fn discard_bytes_ok(s_old: SV, s: SV) -> bool {
  frame_ok(s_old.list, s_old.bytes, s.bytes, 0, 0) && forall|b: int| #[trigger] in_list(s.list, b) ==> in_list(s_old.list, b)
}
pub proof fn lemma_discard_step(s_old: SV, s0: SV, s1: SV)
  requires discard_bytes_ok(s_old, s0), frame_ok(s0.list, s0.bytes, s1.bytes, 0, 0), s0.list.len() > 0, s1.list == s0.list.remove(0)
  ensures discard_bytes_ok(s_old, s1)
{
  lemma_in_list_remove(s0.list, 0);
  assert forall|b: int| 0 <= b < s_old.bytes.len() implies s1.bytes[b] == s_old.bytes[b] || 0 <= b < 0 || #[trigger] in_list(s_old.list, b) by {
    if s1.bytes[b] != s0.bytes[b] { assert(in_list(s0.list, b)); }
  }
}
pub proof fn lemma_discard_init(s: SV)
  ensures discard_bytes_ok(s, s)
{}

/// truncate: capacity changes, everything below the cursor is kept => the invariant is kept
pub proof fn lemma_truncate_wf(a0: AV, a1: AV, s0: SV, s1: SV)
  requires wf(a0, s0),
    a1.data_offset == a0.data_offset && a1.ro == a0.ro && a1.freelist == a0.freelist,
    s0.allocated <= a1.cap <= u32::MAX as int - 8, s1.bytes.len() == a1.cap,
    s1.allocated == s0.allocated && s1.discarded == s0.discarded && s1.min_seg == s0.min_seg && s1.list == s0.list
      && s1.sentinel == s0.sentinel && s1.writable == s0.writable && s1.lo == s0.lo,
    s1.bytes.subrange(0, s0.allocated) == s0.bytes.subrange(0, s0.allocated),
  ensures wf(a1, s1)
{
  assert forall|k: int| 0 <= k < s1.list.len() implies node_ok(a1, s1, #[trigger] s1.list[k]) by { assert(node_ok(a0, s0, s0.list[k])); }
  assert forall|k: int| -1 <= k < s1.list.len() implies word(s1, #[trigger] cell_of(s1.list, k)) == enc(size_of_cell(s1.list, k), next_of(s1.list, k)) by {
    assert(word(s0, cell_of(s0.list, k)) == enc(size_of_cell(s0.list, k), next_of(s0.list, k)));
    if k >= 0 {
      let o = s0.list[k].0 as int;
      assert(node_ok(a0, s0, s0.list[k]));
      assert(s1.bytes.subrange(o, o + 8) =~= s1.bytes.subrange(0, s0.allocated).subrange(o, o + 8));
      assert(s0.bytes.subrange(o, o + 8) =~= s0.bytes.subrange(0, s0.allocated).subrange(o, o + 8));
    }
  }
}
