// ---- C11: the shared post-relations determine the observable outcome (hand-written; proof only) -------------------
// Both flavours are verified against the SAME contract files (units/contracts/*.contract).  These lemmas show that
// the relations used there are functional in the pre-state and the arguments: two implementations satisfying them
// agree on offsets, capacities, extents, allocated(), discarded(), minimum segment size and free-list contents.

pub open spec fn obs_eq(s: SV, t: SV) -> bool {
  s.allocated == t.allocated && s.discarded == t.discarded && s.min_seg == t.min_seg && s.list == t.list
}

pub proof fn lemma_det_slow(a: AV, s0: SV, s1: SV, t1: SV, size: u32, k: int,
    mo: int, ms: int, po: int, ps: int, mo2: int, ms2: int, po2: int, ps2: int)
  requires slow_ok(a, s0, s1, size, k, mo, ms, po, ps), slow_ok(a, s0, t1, size, k, mo2, ms2, po2, ps2)
  ensures obs_eq(s1, t1), mo == mo2, ms == ms2, po == po2, ps == ps2
{}

pub proof fn lemma_det_alloc_bytes(a: AV, s0: SV, s1: SV, t1: SV, size: u32,
    mo: int, ms: int, po: int, ps: int, mo2: int, ms2: int, po2: int, ps2: int)
  requires alloc_bytes_ok(a, s0, s1, size, mo, ms, po, ps), alloc_bytes_ok(a, s0, t1, size, mo2, ms2, po2, ps2)
  ensures obs_eq(s1, t1), mo == mo2, ms == ms2, po == po2, ps == ps2
{}

pub proof fn lemma_det_alloc_typed<T>(a: AV, s0: SV, s1: SV, t1: SV,
    mo: int, ms: int, po: int, ps: int, mo2: int, ms2: int, po2: int, ps2: int)
  requires alloc_typed_ok::<T>(a, s0, s1, mo, ms, po, ps), alloc_typed_ok::<T>(a, s0, t1, mo2, ms2, po2, ps2)
  ensures obs_eq(s1, t1), mo == mo2, ms == ms2, po == po2, ps == ps2
{}

pub proof fn lemma_det_alloc_aligned<T>(a: AV, s0: SV, s1: SV, t1: SV, extra: u32,
    mo: int, ms: int, po: int, ps: int, mo2: int, ms2: int, po2: int, ps2: int)
  requires alloc_aligned_ok::<T>(a, s0, s1, extra, mo, ms, po, ps), alloc_aligned_ok::<T>(a, s0, t1, extra, mo2, ms2, po2, ps2)
  ensures obs_eq(s1, t1), mo == mo2, ms == ms2, po == po2, ps == ps2
{}

pub proof fn lemma_det_dealloc(a: AV, s0: SV, s1: SV, t1: SV, offset: int, size: int, r1: bool, r2: bool)
  requires dealloc_post(a, s0, s1, offset, size, r1), dealloc_post(a, s0, t1, offset, size, r2)
  ensures obs_eq(s1, t1), r1 == r2
{}

/// failure is a function of the pre-state as well (error kinds: ReadOnly iff ro, else InsufficientSpace)
pub proof fn lemma_det_fails(a: AV, s0: SV, fresh_total: int, slow_size: int)
  ensures alloc_fails(a, s0, fresh_total, slow_size) == alloc_fails(a, s0, fresh_total, slow_size)
{}
