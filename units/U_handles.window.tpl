
// ---- the window of the arena a handle reads and writes through (real bodies): the shim primitives buf_copy_from_slice /
// ---- buf_read / buf_read_u8 / buf_write_* above stand for `self.buffer()[..]`, `self.buffer_mut()[..]` and
// ---- `self.as_mut_ptr().add(..)`; these contracts pin buffer() / buffer_mut() / as_mut_ptr() / as_ptr() to exactly
// ---- [offset, offset + capacity) -------------------------------------------------------------------------------
impl Buf {
//@@fn file=bytes.rs scope="impl<'a, A: Allocator> BytesRefMut<'a, A> {" name=buffer xlate=plain props=C14
//@subst /return &\[\];/ => return empty_slice();
//@subst /unsafe \{ self\.arena\.get_bytes\(/ => unsafe { self.arena_get_bytes(
//@contract
  requires self.inv(),
  ensures
    r@.len() == self.cap(), // [C14]
    self.cap() > 0 ==> r@ == self.mem@.subrange(self.off(), self.off() + self.cap()), // [C14]
//@@end
//@@fn file=bytes.rs scope="impl<'a, A: Allocator> BytesRefMut<'a, A> {" name=buffer_mut xlate=plain props=C14
//@subst /&mut \[u8\]/ => Win
//@subst /return &mut \[\];/ => return empty_win();
//@subst /unsafe \{ self\.arena\.get_bytes_mut\(/ => unsafe { self.arena_get_bytes_mut(
//@contract
  requires old(self).inv(),
  ensures
    *final(self) == *old(self),
    r.n@ == old(self).cap(), // [C14]
    old(self).cap() > 0 ==> r.lo@ == old(self).off(), // [C14]
//@@end
//@@fn file=bytes.rs scope="impl<'a, A: Allocator> BytesRefMut<'a, A> {" name=as_mut_ptr xlate=plain props=C14
//@subst /\*mut u8/ => PtrAt
//@subst /unsafe \{ self\.arena\.get_pointer_mut\(/ => unsafe { self.arena_get_pointer(
//@contract
  requires old(self).inv(),
  ensures *final(self) == *old(self), r.off@ == old(self).off() && !r.dangling@, // [C14]
//@@end
//@@fn file=bytes.rs scope="impl<'a, A: Allocator> BytesRefMut<'a, A> {" name=as_ptr xlate=plain props=C14
//@subst /\*const u8/ => PtrAt
//@subst /unsafe \{ self\.arena\.get_pointer\(/ => unsafe { self.arena_get_pointer(
//@contract
  requires self.inv(),
  ensures r.off@ == self.off() && !r.dangling@, // [C14]
//@@end

//@@fn file=bytes.rs scope="impl<A: Allocator> BytesMut<A> {" name=buffer rename=buffer__own xlate=plain props=C14
//@subst /match self\.arena \{/ => match self.arena_side() {
//@subst /Either::Left\(ref arena\) =>/ => Side::Left =>
//@subst /Either::Right\(_\) => &\[\],/ => Side::Right => empty_slice(),
//@subst /unsafe \{ arena\.get_bytes\(/ => unsafe { self.arena_get_bytes(
//@subst? /self\.offset\(\)/ => self.offset__own()
//@subst? /self\.capacity\(\)/ => self.capacity__own()
//@subst? /self\.buffer_offset\(\)/ => self.buffer_offset__own()
//@subst? /self\.buffer_capacity\(\)/ => self.buffer_capacity__own()
//@contract
  requires self.inv(), self.null_arena ==> self.cap() == 0,
  ensures
    r@.len() == self.cap(), // [C14]
    self.cap() > 0 ==> r@ == self.mem@.subrange(self.off(), self.off() + self.cap()), // [C14]
//@@end
//@@fn file=bytes.rs scope="impl<A: Allocator> BytesMut<A> {" name=buffer_mut rename=buffer_mut__own xlate=plain props=C14
//@subst /&mut \[u8\]/ => Win
//@subst /match self\.arena \{/ => match self.arena_side() {
//@subst /Either::Left\(ref mut arena\) =>/ => Side::Left =>
//@subst /Either::Right\(_\) => &mut \[\],/ => Side::Right => empty_win(),
//@subst /unsafe \{ arena\.get_bytes_mut\(/ => unsafe { self.arena_get_bytes_mut(
//@subst? /self\.offset\(\)/ => self.offset__own()
//@subst? /self\.capacity\(\)/ => self.capacity__own()
//@subst? /self\.buffer_offset\(\)/ => self.buffer_offset__own()
//@subst? /self\.buffer_capacity\(\)/ => self.buffer_capacity__own()
//@contract
  requires old(self).inv(), old(self).null_arena ==> old(self).cap() == 0,
  ensures
    *final(self) == *old(self),
    r.n@ == old(self).cap(), // [C14]
    old(self).cap() > 0 ==> r.lo@ == old(self).off(), // [C14]
//@@end
//@@fn file=bytes.rs scope="impl<A: Allocator> BytesMut<A> {" name=as_mut_ptr rename=as_mut_ptr__own xlate=plain props=C14
//@subst /\*mut u8/ => PtrAt
//@subst /match self\.arena\.as_mut\(\) \{/ => match self.arena_side() {
//@subst /Either::Left\(arena\) =>/ => Side::Left =>
//@subst /Either::Right\(ptr\) => ptr\.as_ptr\(\),/ => Side::Right => dangling_ptr(),
//@subst /unsafe \{ arena\.get_pointer_mut\(/ => unsafe { self.arena_get_pointer(
//@subst? /self\.offset\(\)/ => self.offset__own()
//@subst? /self\.buffer_offset\(\)/ => self.buffer_offset__own()
//@contract
  requires old(self).inv(),
  ensures *final(self) == *old(self), !old(self).null_arena ==> r.off@ == old(self).off() && !r.dangling@, // [C14]
    old(self).null_arena ==> r.dangling@,
//@@end
//@@fn file=bytes.rs scope="impl<A: Allocator> BytesMut<A> {" name=as_ptr rename=as_ptr__own xlate=plain props=C14
//@subst /\*const u8/ => PtrAt
//@subst /match self\.arena\.as_ref\(\) \{/ => match self.arena_side() {
//@subst /Either::Left\(arena\) =>/ => Side::Left =>
//@subst /Either::Right\(ptr\) => ptr\.as_ptr\(\),/ => Side::Right => dangling_ptr(),
//@subst /unsafe \{ arena\.get_pointer\(/ => unsafe { self.arena_get_pointer(
//@subst? /self\.offset\(\)/ => self.offset__own()
//@subst? /self\.buffer_offset\(\)/ => self.buffer_offset__own()
//@contract
  requires self.inv(),
  ensures !self.null_arena ==> r.off@ == self.off() && !r.dangling@, // [C14]
    self.null_arena ==> r.dangling@,
//@@end

//@@fn file=bytes.rs scope="impl<A: Allocator> ops::Deref for BytesRefMut<'_, A> {" name=deref xlate=plain props=C14
//@subst /&Self::Target/ => &[u8]
//@subst /return &\[\];/ => return empty_slice();
//@subst /unsafe \{ self\.arena\.get_bytes\(/ => unsafe { self.arena_get_bytes(
//@contract
  requires self.inv(),
  ensures
    r@.len() == self.len, // [C14]
    self.len > 0 ==> r@ == self.mem@.subrange(self.off(), self.off() + self.len as int), // [C14]
//@@end
//@@fn file=bytes.rs scope="impl<A: Allocator> ops::Deref for BytesMut<A> {" name=deref rename=deref__own xlate=plain props=C14
//@subst /&Self::Target/ => &[u8]
//@subst /match self\.arena \{/ => match self.arena_side() {
//@subst /Either::Left\(ref arena\) =>/ => Side::Left =>
//@subst /Either::Right\(_\) => &\[\],/ => Side::Right => empty_slice(),
//@subst /unsafe \{ arena\.get_bytes\(/ => unsafe { self.arena_get_bytes(
//@subst? /self\.offset\(\)/ => self.offset__own()
//@subst? /self\.capacity\(\)/ => self.capacity__own()
//@subst? /self\.buffer_offset\(\)/ => self.buffer_offset__own()
//@contract
  requires self.inv(), self.null_arena ==> self.cap() == 0,
  ensures
    r@.len() == self.len, // [C14]
    self.len > 0 ==> r@ == self.mem@.subrange(self.off(), self.off() + self.len as int), // [C14]
//@@end

//@@fn file=bytes.rs scope="impl<'a, A: Allocator> BytesRefMut<'a, A> {" name=len xlate=plain props=C14
//@contract
  ensures r == self.len, // [C14]
//@@end
//@@fn file=bytes.rs scope="impl<'a, A: Allocator> BytesRefMut<'a, A> {" name=is_empty xlate=plain props=C14
//@contract
  ensures r == (self.len == 0), // [C14]
//@@end
//@@fn file=bytes.rs scope="impl<'a, A: Allocator> BytesRefMut<'a, A> {" name=remaining xlate=plain props=C14
//@contract
  requires self.inv(),
  ensures r as int == self.cap() - self.len as int, // [C14]
//@@end
//@@fn file=bytes.rs scope="impl<A: Allocator> ops::DerefMut for BytesRefMut<'_, A> {" name=deref_mut xlate=plain props=C14
//@subst /&mut Self::Target/ => Win
//@subst /return &mut \[\];/ => return empty_win();
//@subst /unsafe \{ self\.arena\.get_bytes_mut\(/ => unsafe { self.arena_get_bytes_mut(
//@contract
  requires old(self).inv(),
  ensures
    *final(self) == *old(self),
    r.n@ == old(self).len as int, // [C14]
    old(self).len > 0 ==> r.lo@ == old(self).off(), // [C14]
//@@end
//@@fn file=bytes.rs scope="impl<A: Allocator> ops::DerefMut for BytesMut<A> {" name=deref_mut rename=deref_mut__own xlate=plain props=C14
//@subst /&mut Self::Target/ => Win
//@subst /match self\.arena \{/ => match self.arena_side() {
//@subst /Either::Left\(ref mut arena\) =>/ => Side::Left =>
//@subst /Either::Right\(_\) => &mut \[\],/ => Side::Right => empty_win(),
//@subst /unsafe \{ arena\.get_bytes_mut\(/ => unsafe { self.arena_get_bytes_mut(
//@subst? /self\.offset\(\)/ => self.offset__own()
//@subst? /self\.capacity\(\)/ => self.capacity__own()
//@subst? /self\.buffer_offset\(\)/ => self.buffer_offset__own()
//@contract
  requires old(self).inv(), old(self).null_arena ==> old(self).cap() == 0,
  ensures
    *final(self) == *old(self),
    r.n@ == old(self).len as int, // [C14]
    old(self).len > 0 ==> r.lo@ == old(self).off(), // [C14]
//@@end
} // impl Buf (window)
