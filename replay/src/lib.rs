// native replay harnesses live in tests/
