//! Native demonstrations (public API only) of the genuine defects found by the contract checks.
//! Each test states the property clause it exercises and FAILS on a tree that has the defect.
use rarena_allocator::{unsync, sync, Allocator, ArenaPosition, Buffer, Freelist, Options};

fn opts() -> Options { Options::new().with_capacity(1024) }

// D1 (C04): size arithmetic must not wrap / panic for any request size
#[test]
fn d1_alloc_bytes_huge_unsync() {
  let a = opts().alloc::<unsync::Arena>().unwrap();
  let before = a.allocated();
  let r = std::panic::catch_unwind(std::panic::AssertUnwindSafe(|| a.alloc_bytes(u32::MAX).map(|mut b| unsafe { b.detach() })));
  assert!(matches!(r, Ok(Err(_))), "alloc_bytes(u32::MAX) must be a clean error");
  assert_eq!(a.allocated(), before);
}
#[test]
fn d1_alloc_bytes_huge_sync() {
  let a = opts().alloc::<sync::Arena>().unwrap();
  let before = a.allocated();
  let r = std::panic::catch_unwind(std::panic::AssertUnwindSafe(|| a.alloc_bytes(u32::MAX).map(|mut b| unsafe { b.detach() })));
  assert!(matches!(r, Ok(Err(_))), "alloc_bytes(u32::MAX) must be a clean error");
  assert_eq!(a.allocated(), before);
}
#[test]
fn d1_alloc_aligned_bytes_huge_extra() {
  for fl in [Freelist::None, Freelist::Optimistic, Freelist::Pessimistic] {
    let a = opts().with_freelist(fl).alloc::<unsync::Arena>().unwrap();
    let s = opts().with_freelist(fl).alloc::<sync::Arena>().unwrap();
    let before = a.allocated();
    let r = std::panic::catch_unwind(std::panic::AssertUnwindSafe(|| a.alloc_aligned_bytes::<u64>(u32::MAX - 4).map(|mut b| unsafe { b.detach() })));
    assert!(matches!(r, Ok(Err(_))), "unsync {fl:?}");
    assert_eq!(a.allocated(), before);
    let r = std::panic::catch_unwind(std::panic::AssertUnwindSafe(|| s.alloc_aligned_bytes::<u64>(u32::MAX - 4).map(|mut b| unsafe { b.detach() })));
    assert!(matches!(r, Ok(Err(_))), "sync {fl:?}");
  }
}

// D5 / D10 (C17): Current(d) = allocated + d computed without overflow, clamped into [data_offset, capacity]
#[test]
fn d5_rewind_current_extremes() {
  let a = opts().alloc::<unsync::Arena>().unwrap();
  let s = opts().alloc::<sync::Arena>().unwrap();
  let r = std::panic::catch_unwind(std::panic::AssertUnwindSafe(|| unsafe { a.rewind(ArenaPosition::Current(i64::MAX)) }));
  assert!(r.is_ok(), "rewind(Current(i64::MAX)) must not panic");
  assert_eq!(a.allocated(), a.capacity());
  let r = std::panic::catch_unwind(std::panic::AssertUnwindSafe(|| unsafe { s.rewind(ArenaPosition::Current(i64::MAX)) }));
  assert!(r.is_ok());
  assert_eq!(s.allocated(), s.capacity());
}
#[test]
fn d10_rewind_current_to_zero_clamps_to_data_offset() {
  let a = opts().alloc::<unsync::Arena>().unwrap();
  let s = opts().alloc::<sync::Arena>().unwrap();
  let mut b = a.alloc_bytes(100).unwrap(); unsafe { b.detach() }; drop(b);
  let mut b = s.alloc_bytes(100).unwrap(); unsafe { b.detach() }; drop(b);
  let cur = a.allocated() as i64;
  unsafe { a.rewind(ArenaPosition::Current(-cur)) };       // denotes position 0 -> clamps to data_offset
  assert_eq!(a.allocated(), a.data_offset());
  let cur = s.allocated() as i64;
  unsafe { s.rewind(ArenaPosition::Current(-cur)) };
  assert_eq!(s.allocated(), s.data_offset());
}

// D9 (C03): alloc_aligned_bytes::<T>(n) returns an offset aligned for T, also for zero-sized T with align > 1
#[test]
fn d9_aligned_bytes_for_aligned_zst() {
  let a = opts().alloc::<unsync::Arena>().unwrap();
  let s = opts().alloc::<sync::Arena>().unwrap();
  let mut b = a.alloc_bytes(3).unwrap(); unsafe { b.detach() }; drop(b);
  let mut b = s.alloc_bytes(3).unwrap(); unsafe { b.detach() }; drop(b);
  let mut x = a.alloc_aligned_bytes::<[u64; 0]>(8).unwrap(); unsafe { x.detach() };
  assert_eq!(x.offset() % 8, 0, "unsync offset {}", x.offset());
  assert!(x.capacity() >= 8);
  let mut y = s.alloc_aligned_bytes::<[u64; 0]>(8).unwrap(); unsafe { y.detach() };
  assert_eq!(y.offset() % 8, 0, "sync offset {}", y.offset());
  assert!(y.capacity() >= 8);
  // zero-sized request still consumes nothing
  let before = a.allocated();
  let z = a.alloc_aligned_bytes::<[u64; 0]>(0).unwrap();
  assert_eq!(z.capacity(), 0);
  drop(z);
  assert_eq!(a.allocated(), before);
}

// D2 (C14): put followed by get of the same type and byte order returns the value
#[test]
fn d2_get_le_ne_roundtrip() {
  let a = opts().alloc::<unsync::Arena>().unwrap();
  let mut b = a.alloc_bytes(64).unwrap();
  b.put_u16_le(1).unwrap();
  assert_eq!(b.get_u16_le().unwrap(), 1);
  b.put_u32_ne(0x0102_0304).unwrap();
  assert_eq!(b.get_u32_ne().unwrap(), 0x0102_0304);
  b.put_i64_le(-2).unwrap();
  assert_eq!(b.get_i64_le().unwrap(), -2);
  b.put_u128_be(7).unwrap();
  assert_eq!(b.get_u128_be().unwrap(), 7);
  assert_eq!(b.len(), 0);
}

// D3 (C14): align_to yields a pointer aligned for T inside the buffer; put_aligned stays inside the buffer or errs
#[test]
fn d3_align_to_uses_accessible_range() {
  let a = opts().alloc::<unsync::Arena>().unwrap();
  let mut x = a.alloc_bytes(2).unwrap(); unsafe { x.detach() }; drop(x);   // cursor now odd-ish
  let mut b = a.alloc_aligned_bytes::<u64>(16).unwrap();
  assert_eq!(b.offset() % 8, 0);
  let p = b.align_to::<u64>().unwrap();
  let off = unsafe { a.offset(p.as_ptr() as *const u8) };
  assert_eq!(off % 8, 0, "align_to returned arena offset {off}");
  assert!(off >= b.offset() && off <= b.offset() + b.capacity());
}
#[test]
fn d3_put_aligned_checks_size() {
  let a = opts().alloc::<unsync::Arena>().unwrap();
  let mut x = a.alloc_bytes(7).unwrap(); unsafe { x.detach() }; drop(x);   // next offset is 8-aligned (data_offset 1 + 7)
  let mut small = a.alloc_bytes(4).unwrap();
  let mut neighbour = a.alloc_bytes(8).unwrap();
  neighbour.put_u64_le(u64::MAX).unwrap();
  let r = unsafe { small.put_aligned(0u64).map(|_| ()) };
  assert!(r.is_err(), "a u64 cannot fit a 4-byte buffer");
  assert_eq!(small.len(), 0, "len unchanged on error");
  assert_eq!(&neighbour[..], &[0xffu8; 8][..], "neighbouring buffer untouched");
}

// D4 (C15): readers return OutOfBounds for every offset whose value does not lie below allocated()
#[test]
fn d4_reader_offset_overflow() {
  let a = opts().alloc::<unsync::Arena>().unwrap();
  let r = std::panic::catch_unwind(std::panic::AssertUnwindSafe(|| a.get_u16_le(usize::MAX)));
  assert!(matches!(r, Ok(Err(_))), "get_u16_le(usize::MAX) must be OutOfBounds");
  let r = std::panic::catch_unwind(std::panic::AssertUnwindSafe(|| a.get_u64_be(usize::MAX - 3)));
  assert!(matches!(r, Ok(Err(_))));
}
