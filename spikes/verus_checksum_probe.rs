use vstd::prelude::*;
use vstd::slice::*;
use core::mem;
verus! {

pub trait Checksumer {
  spec fn fed(&self) -> Seq<u8>;
  fn update(&mut self, buf: &[u8])
    ensures final(self).fed() == old(self).fed() + buf@;
  fn digest(&self) -> u64;
}

fn checksum<H: Checksumer>(data: &[u8], page_size: usize, hasher: &mut H) -> (r: u64)
  requires page_size > 0, old(hasher).fed() == Seq::<u8>::empty()
  ensures final(hasher).fed() == data@
{
    let total_len = data.len(); // Total length of the allocated memory
    let full_pages = total_len / page_size; // Calculate how many full pages there are
    let remaining_bytes = total_len % page_size; // Calculate the number of remaining bytes

    // Iterate over each full page
    for page_id in 0..full_pages
      invariant
        page_size > 0, full_pages == total_len / page_size, total_len == data@.len(),
        hasher.fed() == data@.subrange(0, page_id * page_size as int),
    {
      assert(page_id * page_size + page_size <= total_len) by (nonlinear_arith)
        requires page_id < full_pages, full_pages == total_len / page_size, page_size > 0;
      let start = page_id * page_size;
      let end = start + page_size;

      // Feed each page's slice into the hasher
      hasher.update(&data[start..end]);
      assert(data@.subrange(0, start as int) + data@.subrange(start as int, end as int) == data@.subrange(0, end as int));
      assert((page_id + 1) * page_size == end) by (nonlinear_arith) requires end == page_id * page_size + page_size;
    }

    // Handle any remaining bytes that don’t fill a full page
    if remaining_bytes > 0 {
      let start = full_pages * page_size;
      hasher.update(&data[start..total_len]); // Process the remaining bytes
      assert(data@.subrange(0, start as int) + data@.subrange(start as int, total_len as int) == data@);
    } else {
      assert(full_pages * page_size == total_len) by (nonlinear_arith) requires full_pages == total_len / page_size, total_len % page_size == 0, page_size > 0;
      assert(data@.subrange(0, total_len as int) == data@);
    }

    // Finalize and return the checksum
    hasher.digest()
}

pub struct Meta { pub parent_ptr: *const u8, pub memory_offset: u32, pub memory_size: u32, pub ptr_offset: u32, pub ptr_size: u32 }
pub struct A { pub ptr: *mut u8 }
impl A {
  fn pad<T>() -> usize 
    requires mem::size_of::<T>() + mem::align_of::<T>() <= usize::MAX
  {
    let size = mem::size_of::<T>();
    let align = mem::align_of::<T>();
    size + align - 1
  }
  fn mk(&self, o: u32, s: u32) -> Meta {
    Meta { parent_ptr: self.ptr as _, memory_offset: o, memory_size: s, ptr_offset: o, ptr_size: s }
  }

}

} // verus!
fn main() {}
