#!/usr/bin/env python3
"""Spike: translate sync.rs functions (atomics -> sequential shim). Feasibility probe only."""
import re
exec(open('/tmp/vx/proto_translate.py').read().split("names_arena =")[0].replace("SRC = open('/repo/rarena-allocator/src/unsync.rs').read()", "SRC = open('/repo/rarena-allocator/src/sync.rs').read()"))

def translate_sync(txt, name):
    t = txt
    t = t.replace('&AtomicU64', 'CellRef')
    # R12 destructuring assignment
    t = re.sub(r'^(\s*)\((\w+), (\w+)\) = (.*?);', r'\1let t__ = \4; \2 = t__.0; \3 = t__.1;', t, flags=re.M)
    # R17 loop-with-break-value (brace matched)
    m = re.search(r'let (\w+) = loop \{', t)
    if m:
        var = m.group(1)
        j = m.end()-1; depth = 0; k = j
        while True:
            if t[k] == '{': depth += 1
            elif t[k] == '}':
                depth -= 1
                if depth == 0: break
            k += 1
        body = t[j:k+1]
        body = re.sub(r'break ([^;]+);', lambda mm: var+'__brk = '+mm.group(1)+'; break;', body)
        assert t[k+1] == ';'
        t = t[:m.start()] + 'let mut '+var+'__brk = 0; loop ' + body + '\n    let '+var+' = '+var+'__brk;' + t[k+2:]
    t = translate(t, name)
    # sentinel atomics
    t = re.sub(r'st\.hdr\.sentinel\s*\.\s*load\(', 'st.cell_load(CellRef::Sentinel, ', t)
    t = re.sub(r'st\.hdr\.sentinel\s*\.\s*compare_exchange\(', 'st.cell_cas(CellRef::Sentinel, ', t)
    # bare identifier cells
    t = re.sub(r'(?<![\.\w])(\w+)\s*\.\s*load\(Ordering', r'st.cell_load(\1, Ordering', t)
    t = re.sub(r'(?<![\.\w])(\w+)\s*\.\s*compare_exchange\(', r'st.cell_cas(\1, ', t)
    # segment store
    t = re.sub(r'self\s*\.\s*as_ref\(\)\s*\.\s*store\(', 'st.cell_store(CellRef::Node(self.ptr_offset), ', t)
    return t

names = ['find_position','find_prev_and_next','optimistic_dealloc','pessimistic_dealloc','alloc_bytes_in',
   'alloc_aligned_bytes_in','alloc_in','alloc_slow_path_pessimistic','alloc_slow_path_optimistic','discard_freelist_in',
   'validate_segment','try_new_segment','pad']
impl_start = SRC.index('impl Arena {\n  /// Returns the free list position')
arena_txt = '\n\n'.join(translate_sync(strip(extract_fn(SRC, n, impl_start)), n) for n in names)
alloc_impl = SRC.index('impl Allocator for Arena {')
trait_txt = '\n\n'.join(translate_sync(strip(extract_fn(SRC, n, alloc_impl)), n) for n in ['dealloc','increase_discarded','remaining','allocated','rewind'])
seg_impl = SRC.index('impl Segment {')
seg_txt = '\n\n'.join(translate_sync(strip(extract_fn(SRC, n, seg_impl)), n) for n in ['from_offset','update_next_node'])
lib_fns = '\n\n'.join(strip(extract_fn(LIB, n)) for n in ['decode_segment_node','encode_segment_node','align_offset'])
meta_impl = LIB.index('impl Meta {')
meta_txt = '\n\n'.join(strip(extract_fn(LIB, n, meta_impl)) for n in ['null','new','align_to','align_bytes_to'])
shim = open('/tmp/vx/proto_shim.rs').read()
shim = shim.replace("pub struct Header { pub allocated: u32, pub min_segment_size: u32, pub discarded: u32 }",
"""#[derive(Copy, Clone, PartialEq, Eq)]
pub enum Ordering { Relaxed, Release, Acquire, AcqRel, SeqCst }
pub struct AtomicU32 { pub v: u32 }
impl AtomicU32 {
  pub fn load(&self, o: Ordering) -> (r: u32) ensures r == self.v { self.v }
  pub fn store(&mut self, v: u32, o: Ordering) ensures final(self).v == v { self.v = v; }
  #[verifier::external_body]
  pub fn fetch_add(&mut self, v: u32, o: Ordering) -> (r: u32) ensures r == old(self).v, final(self).v == old(self).v.wrapping_add(v) { unimplemented!() }
  pub fn compare_exchange(&mut self, cur: u32, new: u32, s: Ordering, f: Ordering) -> (r: Result<u32, u32>)
    ensures old(self).v == cur ==> r == Ok::<u32,u32>(cur) && final(self).v == new,
            old(self).v != cur ==> r == Err::<u32,u32>(old(self).v) && final(self).v == old(self).v
  { if self.v == cur { self.v = new; Ok(cur) } else { Err(self.v) } }
  #[verifier::external_body]
  pub fn compare_exchange_weak(&mut self, cur: u32, new: u32, s: Ordering, f: Ordering) -> (r: Result<u32, u32>)
    ensures match r { Ok(x) => x == cur && old(self).v == cur && final(self).v == new, Err(x) => x == old(self).v && final(self).v == old(self).v }
  { unimplemented!() }
}
pub struct AtomicU64 { pub v: u64 }
pub struct Backoff {}
impl Backoff { pub fn new() -> Self { Backoff {} } pub fn snooze(&self) {} pub fn spin(&self) {} }
pub const REMOVED_SEGMENT_NODE: u32 = 0;
pub struct Header { pub allocated: AtomicU32, pub min_segment_size: AtomicU32, pub discarded: AtomicU32 }""")
shim = shim.replace("""  #[verifier::external_body]
  pub fn write_bytes""","""  #[verifier::external_body]
  pub fn cell_load(&self, c: CellRef, o: Ordering) -> (r: u64) { unimplemented!() }
  #[verifier::external_body]
  pub fn cell_store(&mut self, c: CellRef, v: u64, o: Ordering) { unimplemented!() }
  #[verifier::external_body]
  pub fn cell_cas(&mut self, c: CellRef, cur: u64, new: u64, s: Ordering, f: Ordering) -> (r: Result<u64, u64>) { unimplemented!() }
  #[verifier::external_body]
  pub fn write_bytes""")
print(shim.replace('/*LIB*/', lib_fns).replace('/*META*/', meta_txt).replace('/*SEG*/', seg_txt)
      .replace('/*ARENA*/', arena_txt).replace('/*TRAIT*/', trait_txt))
