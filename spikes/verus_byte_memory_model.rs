use vstd::prelude::*;
verus! {

pub uninterp spec fn w64(s: Seq<u8>) -> u64;
pub uninterp spec fn b64(v: u64) -> Seq<u8>;
#[verifier::external_body]
pub broadcast proof fn axiom_w64_b64(v: u64)
  ensures w64(#[trigger] b64(v)) == v, b64(v).len() == 8
{}

#[derive(Copy, Clone, PartialEq, Eq)]
pub enum CellRef { Sentinel, Node(u32) }
pub ghost struct Mem { pub sentinel: u64, pub bytes: Seq<u8> }
pub struct St { pub mem: Ghost<Mem> }

pub open spec fn splice(b: Seq<u8>, off: int, s: Seq<u8>) -> Seq<u8> {
  Seq::new(b.len(), |i: int| if off <= i < off + s.len() { s[i - off] } else { b[i] })
}

impl St {
  pub open spec fn word(&self, c: CellRef) -> u64 {
    match c { CellRef::Sentinel => self.mem@.sentinel, CellRef::Node(o) => w64(self.mem@.bytes.subrange(o as int, o as int + 8)) }
  }
  #[verifier::external_body]
  pub fn store(&mut self, c: CellRef, v: u64)
    requires c matches CellRef::Node(o) ==> o as int + 8 <= old(self).mem@.bytes.len()
    ensures
      match c {
        CellRef::Sentinel => final(self).mem@.sentinel == v && final(self).mem@.bytes == old(self).mem@.bytes,
        CellRef::Node(o) => final(self).mem@.sentinel == old(self).mem@.sentinel && final(self).mem@.bytes == splice(old(self).mem@.bytes, o as int, b64(v)),
      }
  { unimplemented!() }
  #[verifier::external_body]
  pub fn write_bytes(&mut self, off: usize, v: u8, n: usize)
    requires off + n <= old(self).mem@.bytes.len()
    ensures final(self).mem@.sentinel == old(self).mem@.sentinel,
      final(self).mem@.bytes == splice(old(self).mem@.bytes, off as int, Seq::new(n as nat, |i: int| v))
  { unimplemented!() }
}

// frame lemma: word at node o unchanged by a splice disjoint from [o, o+8)
pub proof fn lemma_word_frame(b: Seq<u8>, off: int, s: Seq<u8>, o: int)
  requires 0 <= o, o + 8 <= b.len(), 0 <= off, off + s.len() <= b.len(), o + 8 <= off || off + s.len() <= o
  ensures splice(b, off, s).subrange(o, o + 8) == b.subrange(o, o + 8)
{
  assert(splice(b, off, s).subrange(o, o + 8) =~= b.subrange(o, o + 8));
}
pub proof fn lemma_word_written(b: Seq<u8>, o: int, v: u64)
  requires 0 <= o, o + 8 <= b.len()
  ensures w64(splice(b, o, b64(v)).subrange(o, o + 8)) == v
{
  broadcast use axiom_w64_b64;
  assert(splice(b, o, b64(v)).subrange(o, o + 8) =~= b64(v));
}

fn test(st: &mut St, a: u32, c: u32, v: u64)
  requires a as int + 8 <= old(st).mem@.bytes.len(), c as int + 16 <= old(st).mem@.bytes.len(), a as int + 8 <= c as int
  ensures final(st).word(CellRef::Node(a)) == v,
    forall|i: int| c as int <= i < c as int + 16 ==> final(st).mem@.bytes[i] == 0
{
  st.store(CellRef::Node(a), v);
  proof { lemma_word_written(old(st).mem@.bytes, a as int, v); }
  let ghost mid = st.mem@.bytes;
  st.write_bytes(c as usize, 0, 16);
  proof { lemma_word_frame(mid, c as int, Seq::new(16, |i: int| 0u8), a as int); }
}

} // verus!
fn main() {}
