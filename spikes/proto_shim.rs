use vstd::prelude::*;
use core::mem;
verus! {

pub const SENTINEL_SEGMENT_NODE_OFFSET: u32 = u32::MAX;
pub const SENTINEL_SEGMENT_NODE_SIZE: u32 = u32::MAX;
pub const SEGMENT_NODE_SIZE: usize = 8;

#[derive(Copy, Clone, PartialEq, Eq)]
pub enum CellRef { Sentinel, Node(u32) }
#[derive(Copy, Clone, PartialEq, Eq)]
pub enum Freelist { None, Optimistic, Pessimistic }
pub enum Error { InsufficientSpace { requested: u32, available: u32 }, ReadOnly }
pub enum ArenaPosition { Start(u32), End(u32), Current(i64) }
pub struct Header { pub allocated: u32, pub min_segment_size: u32, pub discarded: u32 }
pub ghost struct Mem { pub sentinel: u64, pub bytes: Seq<u8> }
pub struct St { pub hdr: Header, pub mem: Ghost<Mem> }

impl St {
  #[verifier::external_body]
  pub fn load(&self, c: CellRef) -> (r: &u64) { unimplemented!() }
  #[verifier::external_body]
  pub fn store(&mut self, c: CellRef, v: u64) ensures final(self).hdr == old(self).hdr { unimplemented!() }
  #[verifier::external_body]
  pub fn write_bytes(&mut self, off: usize, v: u8, n: usize) ensures final(self).hdr == old(self).hdr { unimplemented!() }
}

/*LIB*/

#[derive(Copy, Clone)]
pub struct Meta { parent_ptr: *const u8, memory_offset: u32, memory_size: u32, ptr_offset: u32, ptr_size: u32 }
impl Meta {
/*META*/
  fn clear(&self, arena: &Arena, st: &mut St) { st.write_bytes(self.ptr_offset as usize, 0, self.ptr_size as usize); }
}

#[derive(Copy, Clone)]
pub struct Segment { ptr: *mut u8, ptr_offset: u32, data_offset: u32, data_size: u32 }
impl Segment {
/*SEG*/
}

pub struct Arena { ptr: *mut u8, cap: u32, data_offset: u32, ro: bool, freelist: Freelist, max_retries: u8 }

impl Arena {
  fn get_segment_node(&self, st: &St, offset: u32) -> CellRef { CellRef::Node(offset) }
/*ARENA*/

/*TRAIT*/
}

} // verus!
fn main() {}
