use vstd::prelude::*;
verus! {

pub const SENTINEL_SEGMENT_NODE_OFFSET: u32 = u32::MAX;
pub const SENTINEL_SEGMENT_NODE_SIZE: u32 = u32::MAX;

pub open spec fn dec(val: u64) -> (u32, u32) { ((val >> 32) as u32, val as u32) }
pub open spec fn enc(size: u32, next: u32) -> u64 { ((size as u64) << 32) | next as u64 }

pub proof fn lemma_dec_enc(size: u32, next: u32)
  ensures dec(enc(size, next)) == (size, next)
{
  assert(((((size as u64) << 32) | next as u64) >> 32) as u32 == size) by (bit_vector);
  assert((((size as u64) << 32) | next as u64) as u32 == next) by (bit_vector);
}

// VERBATIM from lib.rs
#[inline]
const fn decode_segment_node(val: u64) -> (r: (u32, u32))
  ensures r == dec(val)
{
  ((val >> 32) as u32, val as u32)
}

#[inline]
const fn encode_segment_node(size: u32, next: u32) -> (r: u64)
  ensures r == enc(size, next)
{
  ((size as u64) << 32) | next as u64
}

#[derive(Copy, Clone, PartialEq, Eq)]
pub enum CellRef { Sentinel, Node(u32) }

pub struct Header { pub allocated: u32, pub min_segment_size: u32, pub discarded: u32 }

pub ghost struct Mem { pub sentinel: u64, pub words: Map<int, u64> }

pub struct St { pub hdr: Header, pub mem: Ghost<Mem>, pub list: Ghost<Seq<(u32, u32)>> }

impl St {
  pub open spec fn word(&self, c: CellRef) -> u64 {
    match c { CellRef::Sentinel => self.mem@.sentinel, CellRef::Node(o) => self.mem@.words[o as int] }
  }
  #[verifier::external_body]
  pub fn load(&self, c: CellRef) -> (r: &u64)
    ensures *r == self.word(c)
  { unimplemented!() }

  #[verifier::external_body]
  pub fn store(&mut self, c: CellRef, v: u64)
    ensures
      final(self).hdr == old(self).hdr,
      final(self).list == old(self).list,
      final(self).word(c) == v,
      forall|d: CellRef| d != c ==> final(self).word(d) == old(self).word(d),
  { unimplemented!() }
}

#[derive(Copy, Clone)]
pub struct Segment { pub ptr_offset: u32, pub data_offset: u32, pub data_size: u32 }

impl Segment {
  // translated: *self.as_mut().as_inner_mut() = encode_segment_node(self.data_size, next);
  #[inline]
  fn update_next_node(&mut self, st: &mut St, next: u32)
    ensures
      *final(self) == *old(self),
      final(st).hdr == old(st).hdr,
      final(st).list == old(st).list,
      final(st).word(CellRef::Node(old(self).ptr_offset)) == enc(old(self).data_size, next),
      forall|d: CellRef| d != CellRef::Node(old(self).ptr_offset) ==> final(st).word(d) == old(st).word(d),
  {
    st.store(CellRef::Node(self.ptr_offset), encode_segment_node(self.data_size, next));
  }
}

pub struct Arena { pub cap: u32, pub data_offset: u32 }

pub open spec fn next_of(l: Seq<(u32,u32)>, i: int) -> u32 {
  if i + 1 < l.len() { l[i + 1].0 } else { SENTINEL_SEGMENT_NODE_OFFSET }
}
pub open spec fn cell_of(l: Seq<(u32,u32)>, i: int) -> CellRef {
  if i < 0 { CellRef::Sentinel } else { CellRef::Node(l[i].0) }
}
pub open spec fn size_of_cell(l: Seq<(u32,u32)>, i: int) -> u32 {
  if i < 0 { SENTINEL_SEGMENT_NODE_SIZE } else { l[i].1 }
}

impl Arena {
  pub open spec fn node_ok(&self, n: (u32,u32)) -> bool {
    n.0 % 8 == 0 && n.0 >= self.data_offset && n.0 as int + 8 + n.1 as int <= self.cap as int && n.1 >= 1 && n.1 < u32::MAX
  }
  pub open spec fn wf(&self, st: &St) -> bool {
    let l = st.list@;
    &&& self.data_offset >= 1
    &&& forall|i: int| 0 <= i < l.len() ==> self.node_ok(#[trigger] l[i])
    &&& forall|i: int, j: int| 0 <= i < j < l.len() ==> (l[i].0 as int + 8 + l[i].1 as int <= l[j].0 as int || l[j].0 as int + 8 + l[j].1 as int <= l[i].0 as int)
    &&& forall|i: int| -1 <= i < l.len() ==> st.word(#[trigger] cell_of(l, i)) == enc(size_of_cell(l, i), next_of(l, i))
    &&& forall|i: int, j: int| 0 <= i <= j < l.len() ==> l[i].1 <= l[j].1
  }

  pub open spec fn fresh(&self, st: &St, off: u32, size: u32) -> bool {
    let l = st.list@;
    &&& off >= self.data_offset
    &&& off as int + size as int <= self.cap as int
    &&& forall|i: int| 0 <= i < l.len() ==> (l[i].0 as int + 8 + l[i].1 as int <= off as int || off as int + size as int <= l[i].0 as int)
  }

  #[inline]
  fn increase_discarded(&self, st: &mut St, size: u32)
    requires old(st).hdr.discarded as int + size as int <= u32::MAX as int
    ensures final(st).mem == old(st).mem, final(st).list == old(st).list,
      final(st).hdr.discarded == old(st).hdr.discarded + size,
      final(st).hdr.allocated == old(st).hdr.allocated,
      final(st).hdr.min_segment_size == old(st).hdr.min_segment_size,
  {
    st.hdr.discarded += size;
  }

  #[inline]
  fn get_segment_node(&self, st: &St, offset: u32) -> (r: CellRef)
    requires exists|i: int| 0 <= i < st.list@.len() && st.list@[i].0 == offset
    ensures r == CellRef::Node(offset)
  { CellRef::Node(offset) }

  // translated from unsync.rs find_position
  fn find_position<F: Fn(u32, u32) -> bool>(&self, st: &St, val: u32, check: F) -> (r: (u64, CellRef))
    requires
      self.wf(st),
      forall|a: u32, b: u32| check.requires((a, b)),
    ensures
      exists|i: int| -1 <= i < st.list@.len() && r.1 == cell_of(st.list@, i) && r.0 == st.word(r.1)
        && (forall|j: int| 0 <= j <= i ==> check.ensures((val, st.list@[j].1), false))
        && (i + 1 == st.list@.len() || check.ensures((val, st.list@[i + 1].1), true)),
  {
    let mut current: CellRef = CellRef::Sentinel;
    let mut current_node = st.load(current);
    let (mut current_node_size, mut next_offset) = decode_segment_node(*current_node);
    let ghost mut idx: int = -1;
    proof { lemma_dec_enc(size_of_cell(st.list@, -1), next_of(st.list@, -1)); }
    loop
      invariant
        self.wf(st),
        forall|a: u32, b: u32| check.requires((a, b)),
        -1 <= idx < st.list@.len(),
        current == cell_of(st.list@, idx),
        *current_node == st.word(current),
        current_node_size == size_of_cell(st.list@, idx),
        next_offset == next_of(st.list@, idx),
        forall|j: int| 0 <= j <= idx ==> check.ensures((val, st.list@[j].1), false),
      decreases st.list@.len() - idx,
    {
      // the list is empty
      if current_node_size == SENTINEL_SEGMENT_NODE_SIZE
        && next_offset == SENTINEL_SEGMENT_NODE_OFFSET
      {
        return (*current_node, current);
      }

      // the current is marked as remove and the next is the tail.
      if next_offset == SENTINEL_SEGMENT_NODE_OFFSET {
        return (*current_node, current);
      }

      // the next is the tail, then we should insert the value after the current node.
      if next_offset == SENTINEL_SEGMENT_NODE_OFFSET {
        return (*current_node, current);
      }

      let next = self.get_segment_node(st, next_offset);
      let next_node = st.load(next);
      let (next_node_size, next_next_offset) = decode_segment_node(*next_node);
      proof {
        assert(next == cell_of(st.list@, idx + 1));
        lemma_dec_enc(size_of_cell(st.list@, idx + 1), next_of(st.list@, idx + 1));
      }

      if check(val, next_node_size) {
        return (*current_node, current);
      }

      current = next;
      current_node = next_node;
      current_node_size = next_node_size;
      next_offset = next_next_offset;
      proof { idx = idx + 1; }
    }
  }
}


impl Arena {
  #[inline]
  fn try_new_segment(&self, st: &mut St, offset: u32, size: u32) -> (r: Option<Segment>)
    requires
      old(st).hdr.discarded as int + size as int <= u32::MAX as int,
      offset as int + size as int <= u32::MAX as int - 8,
    ensures
      final(st).mem == old(st).mem, final(st).list == old(st).list,
      final(st).hdr.allocated == old(st).hdr.allocated,
      final(st).hdr.min_segment_size == old(st).hdr.min_segment_size,
      match r {
        Some(seg) => final(st).hdr.discarded == old(st).hdr.discarded
           && seg.ptr_offset % 8 == 0 && seg.ptr_offset >= offset && seg.data_offset == seg.ptr_offset + 8
           && seg.data_offset as int + seg.data_size as int == offset as int + size as int
           && seg.data_size >= 1 && seg.data_size >= old(st).hdr.min_segment_size,
        None => offset == 0 || size == 0 || final(st).hdr.discarded == old(st).hdr.discarded + size,
      }
  {
    if offset == 0 || size == 0 {
      return None;
    }

    let aligned_offset = align_offset_u64(offset) as usize;
    let padding = aligned_offset - offset as usize;
    let segmented_node_size = padding + SEGMENT_NODE_SIZE;
    if segmented_node_size >= size as usize {
      self.increase_discarded(st, size);
      return None;
    }

    let available_bytes = size - segmented_node_size as u32;
    if available_bytes < st.hdr.min_segment_size {
      self.increase_discarded(st, size);
      return None;
    }

    Some(Segment {
      ptr_offset: aligned_offset as u32,
      data_offset: (aligned_offset + SEGMENT_NODE_SIZE) as u32,
      data_size: available_bytes,
    })
  }

  fn pessimistic_dealloc(&self, st: &mut St, offset: u32, size: u32) -> (r: bool)
    requires
      self.wf(old(st)),
      self.fresh(old(st), offset, size),
      old(st).hdr.discarded as int + size as int <= u32::MAX as int,
      offset as int + size as int <= u32::MAX as int - 8,
    ensures
      self.wf(final(st)),
  {
    // check if we have enough space to allocate a new segment in this segment.
    let Some(mut segment_node) = self.try_new_segment(st, offset, size) else {
      return false;
    };

    let (current_node_size_and_next_node_offset, current) = self
      .find_position(st, segment_node.data_size, |val: u32, next_node_size: u32| -> (b: bool)
        ensures b == (val <= next_node_size)
      {
        val <= next_node_size
      });
    let (node_size, next_node_offset) = decode_segment_node(current_node_size_and_next_node_offset);

    let ghost i: int = choose|i: int| -1 <= i < st.list@.len() && current == cell_of(st.list@, i) && current_node_size_and_next_node_offset == st.word(current)
        && (forall|j: int| 0 <= j <= i ==> st.list@[j].1 < segment_node.data_size)
        && (i + 1 == st.list@.len() || segment_node.data_size <= st.list@[i + 1].1);
    proof { lemma_dec_enc(size_of_cell(st.list@, i), next_of(st.list@, i)); }

    segment_node.update_next_node(st, next_node_offset);

    st.store(current, encode_segment_node(node_size, segment_node.ptr_offset));

    proof {
      let ghost old_l = st.list@;
      st.list = Ghost(old_l.insert(i + 1, (segment_node.ptr_offset, segment_node.data_size)));
      lemma_insert(*self, *old(st), *st, i, (segment_node.ptr_offset, segment_node.data_size));
    }

    self.increase_discarded(st, segment_node.data_offset - segment_node.ptr_offset);
    true
  }
}

pub const SEGMENT_NODE_SIZE: usize = 8;


pub open spec fn ins_pre(a: Arena, s0: St, s2: St, i: int, n: (u32, u32)) -> bool {
    &&& a.wf(&s0)
    &&& -1 <= i < s0.list@.len()
    &&& a.node_ok(n)
    &&& forall|k: int| 0 <= k < s0.list@.len() ==> (#[trigger] s0.list@[k]).0 as int + 8 + s0.list@[k].1 as int <= n.0 as int || n.0 as int + 8 + n.1 as int <= s0.list@[k].0 as int
    &&& forall|j: int| 0 <= j <= i ==> (#[trigger] s0.list@[j]).1 <= n.1
    &&& (i + 1 == s0.list@.len() || n.1 <= s0.list@[i + 1].1)
    &&& s2.list@ == s0.list@.insert(i + 1, n)
    &&& s2.word(CellRef::Node(n.0)) == enc(n.1, next_of(s0.list@, i))
    &&& s2.word(cell_of(s0.list@, i)) == enc(size_of_cell(s0.list@, i), n.0)
    &&& forall|d: CellRef| d != CellRef::Node(n.0) && d != cell_of(s0.list@, i) ==> s2.word(d) == s0.word(d)
}

pub open spec fn old_idx(i: int, k: int) -> int { if k <= i { k } else { k - 1 } }

pub proof fn lemma_ins_index(l0: Seq<(u32,u32)>, i: int, n: (u32,u32), k: int)
  requires -1 <= i < l0.len(), 0 <= k <= l0.len()
  ensures l0.insert(i + 1, n)[k] == (if k == i + 1 { n } else { l0[old_idx(i, k)] })
{}

pub proof fn lemma_insert_nodes(a: Arena, s0: St, s2: St, i: int, n: (u32, u32))
  requires ins_pre(a, s0, s2, i, n)
  ensures forall|k: int| 0 <= k < s2.list@.len() ==> a.node_ok(#[trigger] s2.list@[k])
{
  let l0 = s0.list@; let l = s2.list@;
  assert forall|k: int| 0 <= k < l.len() implies a.node_ok(#[trigger] l[k]) by {
    lemma_ins_index(l0, i, n, k);
    if k != i + 1 { assert(a.node_ok(l0[old_idx(i, k)])); }
  }
}

pub proof fn lemma_insert_disjoint(a: Arena, s0: St, s2: St, i: int, n: (u32, u32))
  requires ins_pre(a, s0, s2, i, n)
  ensures forall|p: int, q: int| 0 <= p < q < s2.list@.len() ==> (s2.list@[p].0 as int + 8 + s2.list@[p].1 as int <= s2.list@[q].0 as int || s2.list@[q].0 as int + 8 + s2.list@[q].1 as int <= s2.list@[p].0 as int)
{
  let l0 = s0.list@; let l = s2.list@;
  assert forall|p: int, q: int| 0 <= p < q < l.len() implies (l[p].0 as int + 8 + l[p].1 as int <= l[q].0 as int || l[q].0 as int + 8 + l[q].1 as int <= l[p].0 as int) by {
    lemma_ins_index(l0, i, n, p);
    lemma_ins_index(l0, i, n, q);
    let pp = old_idx(i, p); let qq = old_idx(i, q);
    if p == i + 1 { let x = l0[qq]; }
    else if q == i + 1 { let x = l0[pp]; }
    else { assert(pp < qq); }
  }
}

pub proof fn lemma_insert_sorted(a: Arena, s0: St, s2: St, i: int, n: (u32, u32))
  requires ins_pre(a, s0, s2, i, n)
  ensures forall|p: int, q: int| 0 <= p <= q < s2.list@.len() ==> s2.list@[p].1 <= s2.list@[q].1
{
  let l0 = s0.list@; let l = s2.list@;
  assert forall|p: int, q: int| 0 <= p <= q < l.len() implies l[p].1 <= l[q].1 by {
    lemma_ins_index(l0, i, n, p);
    lemma_ins_index(l0, i, n, q);
    let pp = old_idx(i, p); let qq = old_idx(i, q);
    if p == i + 1 && q == i + 1 {}
    else if p == i + 1 { assert(l0[i + 1].1 <= l0[qq].1); }
    else if q == i + 1 { let x = l0[pp]; }
    else { assert(pp <= qq); }
  }
}

pub proof fn lemma_insert_linked(a: Arena, s0: St, s2: St, i: int, n: (u32, u32))
  requires ins_pre(a, s0, s2, i, n)
  ensures forall|k: int| -1 <= k < s2.list@.len() ==> s2.word(#[trigger] cell_of(s2.list@, k)) == enc(size_of_cell(s2.list@, k), next_of(s2.list@, k))
{
  let l0 = s0.list@; let l = s2.list@;
  assert forall|k: int| -1 <= k < l.len() implies s2.word(#[trigger] cell_of(l, k)) == enc(size_of_cell(l, k), next_of(l, k)) by {
    if k >= 0 { lemma_ins_index(l0, i, n, k); }
    if k + 1 < l.len() { lemma_ins_index(l0, i, n, k + 1); }
    if k == i + 1 {
    } else {
      let kk = old_idx(i, k);
      assert(cell_of(l, k) == cell_of(l0, kk));
      assert(s0.word(cell_of(l0, kk)) == enc(size_of_cell(l0, kk), next_of(l0, kk)));
      if k == i {
      } else {
        if kk >= 0 { let x = l0[kk]; assert(x.0 != n.0); }
        if kk >= 0 && i >= 0 { assert(l0[kk].0 != l0[i].0); }
        assert(cell_of(l0, kk) != CellRef::Node(n.0));
        assert(cell_of(l0, kk) != cell_of(l0, i));
      }
    }
  }
}

pub proof fn lemma_insert(a: Arena, s0: St, s2: St, i: int, n: (u32, u32))
  requires ins_pre(a, s0, s2, i, n)
  ensures a.wf(&s2)
{
  lemma_insert_nodes(a, s0, s2, i, n);
  lemma_insert_disjoint(a, s0, s2, i, n);
  lemma_insert_sorted(a, s0, s2, i, n);
  lemma_insert_linked(a, s0, s2, i, n);
}

#[verifier::external_body]
fn align_offset_u64(current_offset: u32) -> (r: u32)
  requires current_offset as int + 8 <= u32::MAX as int
  ensures r >= current_offset, r - current_offset < 8, r % 8 == 0
{ unimplemented!() }

} // verus!
fn main() {}
