use vstd::prelude::*;
verus! {

pub enum ArenaPosition { Start(u32), End(u32), Current(i64) }

pub struct H { pub allocated: u32 }

// rewind, translated: header load/store replaced
fn rewind(data_offset: u32, cap: u32, h: &mut H, pos: ArenaPosition)
  requires data_offset <= cap
  ensures data_offset <= final(h).allocated <= cap || final(h).allocated == old(h).allocated
{
    let allocated = h.allocated;
    let final_offset = match pos {
      ArenaPosition::Start(offset) => offset.max(data_offset).min(cap),
      ArenaPosition::Current(offset) => {
        let offset = allocated as i64 + offset;
        #[allow(clippy::comparison_chain)]
        if offset > 0 {
          if offset >= (cap as i64) {
            cap
          } else {
            let offset = offset as u32;
            offset.max(data_offset).min(cap)
          }
        } else if offset < 0 {
          data_offset
        } else {
          return;
        }
      }
      ArenaPosition::End(offset) => match cap.checked_sub(offset) {
        Some(val) => val.max(data_offset),
        None => data_offset,
      },
    };

    h.allocated = final_offset;
}

fn f2(check: impl Fn(u32, u32) -> bool, a: u32) -> (r: bool)
  requires forall|x: u32, y: u32| check.requires((x, y))
{
  let mut p: u32; let mut q: u32;
  let t = (a, a); p = t.0; q = t.1;
  check(p, q)
}

fn f3(cap: u32, allocated: usize) -> usize {
  (cap as usize).saturating_sub(allocated)
}

} // verus!
fn main() {}
