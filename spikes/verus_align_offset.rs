use vstd::prelude::*;
use vstd::layout::*;
verus! {

pub open spec fn is_pow2_u32(a: u32) -> bool { a != 0 && a & sub(a, 1) == 0 }

#[inline]
pub const fn align_offset<T>(current_offset: u32) -> (r: u32)
  requires
    is_pow2_u32(align_of::<T>() as u32),
    align_of::<T>() <= 0x8000_0000,
    current_offset as int + align_of::<T>() as int <= u32::MAX as int,
  ensures
    r >= current_offset,
    (r as int - current_offset as int) < (align_of::<T>() as int),
    r as int % (align_of::<T>() as int) == 0,
{
  let alignment = core::mem::align_of::<T>() as u32;
  proof {
    let x = current_offset; let a = alignment;
    assert(a != 0 && a & sub(a,1) == 0 && add(x, sub(a,1)) >= x ==> 
       ({ let r = add(x, sub(a, 1)) & !sub(a,1); r >= x && sub(r, x) < a && r % a == 0 })) by (bit_vector);
  }
  (current_offset + alignment - 1) & !(alignment - 1)
}

} // verus!
fn main() {}
