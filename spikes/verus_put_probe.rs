use vstd::prelude::*;
verus! {
pub struct B { pub len: usize, pub cap: usize }
impl B {
  #[inline]
  pub fn capacity(&self) -> (r: usize) ensures r == self.cap { self.cap }
  #[inline]
  pub unsafe fn put_u16_le_unchecked(&mut self, value: u16)
    requires old(self).len + 2 <= old(self).cap
    ensures final(self).len == old(self).len + 2, final(self).cap == old(self).cap
  { self.len += 2; }
  #[inline]
  pub fn put_u16_le(&mut self, value: u16) -> (r: Result<(), u64>)
    requires old(self).len <= old(self).cap, old(self).cap <= 0xffff_ffff
    ensures final(self).cap == old(self).cap,
      r is Ok ==> final(self).len == old(self).len + 2 && final(self).len <= final(self).cap,
      r is Err ==> final(self).len == old(self).len && old(self).len + 2 > old(self).cap,
  {
            let SIZE: usize = core::mem::size_of::<u16>();
            if self.len + SIZE > self.capacity() {
                return Err((self.capacity() - self.len) as u64);
            }
            unsafe { self.put_u16_le_unchecked(value); }
            Ok(())
  }
}
} // verus!
fn main() {}
