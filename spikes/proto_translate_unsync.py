#!/usr/bin/env python3
"""Spike: mechanical extraction + translation of unsync.rs functions into Verus-checkable text.
Not framework code - a feasibility probe for DESIGN.md section 3.2."""
import re, sys

SRC = open('/repo/rarena-allocator/src/unsync.rs').read()
LIB = open('/repo/rarena-allocator/src/lib.rs').read()

def extract_fn(src, name, start_hint=0):
    m = re.search(r'^[ \t]*(?:pub(?:\([a-z]+\))? )?(?:const )?(?:unsafe )?fn ' + re.escape(name) + r'\b', src[start_hint:], re.M)
    if not m: raise SystemExit(f'anchor lost: fn {name}')
    i = start_hint + m.start()
    j = src.index('{', i)
    # signature may contain '{' only in body start (no where-clauses with braces here)
    depth = 0; k = j
    while True:
        c = src[k]
        if c == '{': depth += 1
        elif c == '}':
            depth -= 1
            if depth == 0: break
        k += 1
    return src[i:k+1]

def strip(body):
    out = []
    lines = body.split('\n')
    skip_stmt = False
    i = 0
    while i < len(lines):
        l = lines[i]
        s = l.strip()
        if s.startswith('///') or s.startswith('//'):
            i += 1; continue
        if s.startswith('#[inline') or s.startswith('#[allow') :
            i += 1; continue
        if s.startswith('#[cfg(feature = "tracing")]'):
            # drop following statement (until line ending with ';')
            i += 1
            while not lines[i].rstrip().endswith(';'): i += 1
            i += 1; continue
        out.append(l); i += 1
    return '\n'.join(out)

MUT = {'optimistic_dealloc','pessimistic_dealloc','alloc_bytes_in','alloc_aligned_bytes_in','alloc_in',
       'alloc_slow_path_pessimistic','alloc_slow_path_optimistic','discard_freelist_in','try_new_segment',
       'increase_discarded','update_next_node','clear','dealloc','rewind'}
CONST = {'find_position','find_prev_and_next','validate_segment','get_segment_node','remaining','allocated'}
STATIC = {'pad'}
ALL = MUT | CONST

def translate(txt, name):
    t = txt
    # R1 signature
    stty = '&mut St' if name in MUT else '&St'
    t = re.sub(r'\((\s*)(&self|&mut self)', lambda m: f'({m.group(1)}{m.group(2)}, st: {stty}', t, count=1)
    # R14 impl Fn -> generic
    if 'impl Fn(u32, u32) -> bool' in t:
        t = t.replace('check: impl Fn(u32, u32) -> bool', 'check: F')
        t = re.sub(r'fn ' + name + r'\(', f'fn {name}<F: Fn(u32, u32) -> bool>(', t, count=1)
    # R4 types
    t = t.replace('&UnsafeCell<u64>', 'CellRef')
    # R3 header
    t = re.sub(r'^\s*let header = self\.header(_mut)?\(\);\n', '', t, flags=re.M)
    t = re.sub(r'self\.header(_mut)?\(\)\.', 'st.hdr.', t)
    t = re.sub(r'\bheader\s*\.\s*', 'st.hdr.', t)
    # R4 sentinel
    t = t.replace('&st.hdr.sentinel', 'CellRef::Sentinel')
    t = re.sub(r'\*st\.hdr\.sentinel\.as_inner_mut\(\) = (.*?);', r'st.store(CellRef::Sentinel, \1);', t, flags=re.S)
    t = t.replace('st.hdr.sentinel.as_inner_ref()', 'st.load(CellRef::Sentinel)')
    # R5 cells
    t = re.sub(r'\*(\w+)\.as_inner_ref_mut\(\) = (.*?);', r'st.store(\1, \2);', t, flags=re.S)
    t = re.sub(r'\b(\w+)\.as_inner_ref\(\)', r'st.load(\1)', t)
    # R8 segment node store
    t = re.sub(r'\*self\.as_mut\(\)\.as_inner_mut\(\) = (.*?);', r'st.store(CellRef::Node(self.ptr_offset), \1);', t, flags=re.S)
    # R2 state passing for calls
    for g in sorted(ALL, key=len, reverse=True):
        t = re.sub(r'(\bself\s*\.\s*' + g + r')\(\s*\)', r'\1(st)', t)
        t = re.sub(r'(\bself\s*\.\s*' + g + r')\((?!st[,)])', r'\1(st, ', t)
    t = re.sub(r'(\w+\.update_next_node)\(', r'\1(st, ', t)
    t = re.sub(r'(\w+)\.clear\(self\)', r'\1.clear(self, st)', t)
    # R11
    # generics path
    t = t.replace('mem::size_of', 'core::mem::size_of').replace('mem::align_of', 'core::mem::align_of')
    # align_offset::<u64> stays
    return t

names_arena = ['find_position','find_prev_and_next','optimistic_dealloc','pessimistic_dealloc','alloc_bytes_in',
   'alloc_aligned_bytes_in','alloc_in','alloc_slow_path_pessimistic','alloc_slow_path_optimistic','discard_freelist_in',
   'validate_segment','try_new_segment','pad']
impl_start = SRC.index('impl Arena {\n  /// Truncate')
out = []
for n in names_arena:
    out.append(translate(strip(extract_fn(SRC, n, impl_start)), n))
arena_txt = '\n\n'.join(out)

# trait methods
alloc_impl = SRC.index('impl Allocator for Arena {')
tm = []
for n in ['dealloc','increase_discarded','remaining','allocated','rewind']:
    tm.append(translate(strip(extract_fn(SRC, n, alloc_impl)), n))
trait_txt = '\n\n'.join(tm)

seg_impl = SRC.index('impl Segment {')
seg_txt = '\n\n'.join(translate(strip(extract_fn(SRC, n, seg_impl)), n) for n in ['from_offset','update_next_node'])

lib_fns = '\n\n'.join(strip(extract_fn(LIB, n)) for n in ['decode_segment_node','encode_segment_node','align_offset'])
meta_impl = LIB.index('impl Meta {')
meta_txt = '\n\n'.join(strip(extract_fn(LIB, n, meta_impl)) for n in ['null','new','align_to','align_bytes_to'])

print(open('/tmp/vx/proto_shim.rs').read()
      .replace('/*LIB*/', lib_fns).replace('/*META*/', meta_txt).replace('/*SEG*/', seg_txt)
      .replace('/*ARENA*/', arena_txt).replace('/*TRAIT*/', trait_txt))
