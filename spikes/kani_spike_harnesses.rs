#[cfg(kani)]
mod kani_spike {
  use super::*;

  #[kani::proof]
  fn spike_align_offset() {
    let x: u32 = kani::any();
    kani::assume(x <= u32::MAX - 8);
    let r = align_offset::<u64>(x);
    assert!(r >= x && r - x < 8 && r % 8 == 0);
  }

  #[kani::proof]
  #[kani::unwind(4)]
  fn spike_unsync_alloc() {
    let arena = Options::new().with_capacity(128).with_freelist(Freelist::Pessimistic).alloc::<unsync::Arena>().unwrap();
    let n: u32 = kani::any();
    kani::assume(n <= 200);
    let before = arena.allocated();
    match arena.alloc_bytes(n) {
      Ok(mut b) => {
        unsafe { b.detach(); }
        assert!(b.capacity() == n as usize);
        assert!(b.offset() + b.capacity() <= arena.allocated());
      }
      Err(_) => { assert!(arena.allocated() == before); }
    }
  }
}

#[cfg(kani)]
mod kani_spike2 {
  use super::*;
  #[kani::proof]
  fn spike_fail() {
    let x: u32 = kani::any();
    let y: u16 = kani::any();
    let r = align_offset::<u64>(x);
    assert!(r >= x);
    assert!(y != 7);
  }
}
#[cfg(kani)]
mod kani_spike3 {
  use super::*;
  #[kani::proof]
  fn spike_sanity() {
    let mut data: [u8; 8] = kani::any();
    let mv: u16 = kani::any();
    let fl: u8 = kani::any();
    kani::assume(fl <= 2);
    write_sanity(fl, mv, &mut data);
    let want = Freelist::try_from(fl).unwrap();
    let r = sanity_check(Some(want), mv, &data);
    assert!(r.is_ok());
    let idx: usize = kani::any();
    kani::assume(idx >= 1 && idx < 8);
    let b: u8 = kani::any();
    kani::assume(b != data[idx]);
    data[idx] = b;
    assert!(sanity_check(Some(want), mv, &data).is_err());
  }
}
