"""Run Verus on a generated unit and turn its output into per-function verdicts and classified failures."""
import json
import os
import re
import subprocess
import time

SEMANTIC = (
    'postcondition not satisfied',
    'precondition not satisfied',
    'assertion failed',
    'possible arithmetic underflow/overflow',
    'possible division by zero',
    'possible bit shift underflow/overflow',
    'invariant not satisfied before loop',
    'loop invariant not satisfied',
    'invariant not satisfied at end of loop body',
    'unreachable',
    'requires not satisfied',      # the `requires` of an `assert ... by(...) requires ...` proof step
    'precondition not met',        # vstd's own preconditions, e.g. `index in bounds for this access` (the access would panic)
    'unable to prove post-condition of closure',   # a closure body no longer meets the //@closure spec it is given
)

LABEL_RE = re.compile(r'//\s*\[([A-Z0-9 ,]+)\]')


def verus_version():
    try:
        out = subprocess.run(['verus', '--version'], capture_output=True, text=True).stdout
        m = re.search(r'Version:\s*(\S+)', out)
        return m.group(1) if m else 'unknown'
    except Exception:
        return 'unknown'


def run(unit_path, rlimit=60, threads=8, timeout=1200, only_fn=None):
    cmd = ['verus', os.path.basename(unit_path), '--output-json', '--time', '--multiple-errors', '200',
           '--triggers-mode', 'silent', '--error-format=json', '--rlimit', str(rlimit), '--num-threads', str(threads)]
    if only_fn:
        cmd += ['--verify-root', '--verify-function', only_fn]
    elif os.environ.get('VERIF_ONLY_FN'):
        cmd += ['--verify-root', '--verify-function', os.environ['VERIF_ONLY_FN']]
    t0 = time.time()
    try:
        p = subprocess.run(cmd, cwd=os.path.dirname(unit_path), capture_output=True, text=True, timeout=timeout)
    except subprocess.TimeoutExpired:
        return {'cmd': ' '.join(cmd), 'tool_error': 'verus timeout after %ds' % timeout, 'wall_s': time.time() - t0,
                'diags': [], 'functions': {}, 'results': {}}
    wall = time.time() - t0
    res = {'cmd': ' '.join(cmd), 'wall_s': wall, 'exit': p.returncode, 'diags': [], 'functions': {}, 'results': {},
           'tool_error': None}
    try:
        js = json.loads(p.stdout)
    except Exception:
        js = None
    if js is None:
        res['tool_error'] = 'verus produced no JSON (exit %s): %s' % (p.returncode, (p.stderr or '')[-2000:])
    else:
        res['results'] = js.get('verification-results', {})
        smt = js.get('times-ms', {}).get('smt', {})
        res['smt_ms'] = smt.get('total', 0)
        for mod in smt.get('smt-run-module-times', []):
            for fb in mod.get('function-breakdown', []):
                name = fb.get('function', '')
                res['functions'][name.split('::')[-1] if False else name] = {
                    'success': fb.get('success'), 'time_us': fb.get('time-micros'), 'rlimit': fb.get('rlimit')}
    for line in p.stderr.splitlines():
        line = line.strip()
        if not line.startswith('{'):
            continue
        try:
            d = json.loads(line)
        except Exception:
            continue
        if d.get('$message_type') != 'diagnostic':
            continue
        if d.get('level') not in ('error',):
            continue
        msg = d.get('message', '')
        if msg.startswith('aborting due to'):
            continue
        res['diags'].append(d)
    return res


def classify(diag, unit_lines, fn_at_line):
    """-> dict(kind, semantic, function, labels, clause, site, rendered)"""
    msg = diag.get('message', '')
    spans = diag.get('spans', [])
    primary = [s for s in spans if s.get('is_primary')] or spans
    semantic = any(msg.startswith(k) for k in SEMANTIC)
    # the clause span: for post/pre-conditions the span labelled 'failed ...'; else primary
    clause_span = None
    for s in spans:
        lab = s.get('label') or ''
        if lab.startswith('failed this postcondition') or lab.startswith('failed precondition'):
            clause_span = s
    site_span = primary[0] if primary else None
    if msg.startswith('postcondition'):
        # function = the one owning the postcondition; site = return point
        fn_line = clause_span['line_start'] if clause_span else (site_span['line_start'] if site_span else 0)
    else:
        fn_line = site_span['line_start'] if site_span else 0
    if clause_span is None:
        clause_span = site_span
    labels = set()
    clause_text = ''
    if clause_span:
        ls, le = clause_span['line_start'], clause_span['line_end']
        clause_text = '\n'.join(unit_lines[ls - 1:le])
        for ln in range(ls, le + 1):
            m = LABEL_RE.search(unit_lines[ln - 1])
            if m:
                labels |= set(re.split(r'[ ,]+', m.group(1).strip()))
    if site_span and msg.startswith('precondition'):
        # a label on the call-site line narrows the attribution of a failed proof step
        m = LABEL_RE.search(unit_lines[site_span['line_start'] - 1])
        if m:
            labels = set(re.split(r'[ ,]+', m.group(1).strip()))
    return {
        'kind': msg, 'semantic': semantic, 'function': fn_at_line(fn_line), 'labels': sorted(labels),
        'clause': clause_text.strip(), 'clause_line': clause_span['line_start'] if clause_span else None,
        'site_line': site_span['line_start'] if site_span else None,
        'site': unit_lines[site_span['line_start'] - 1].strip() if site_span else '',
        'rendered': diag.get('rendered', ''),
    }
