"""Per-property orchestration: build units from /repo, run Verus, attribute failures, triage, evidence."""
import json
import os
import re
import shutil
import subprocess
import sys
import tempfile
import time

from . import extract as X
from . import build as B
from . import verus as V

VERIF = os.path.dirname(os.path.dirname(os.path.abspath(__file__)))
# developer override only (see build.SRC_ROOT); registered checks always use /repo
REPO = os.environ.get('VERIF_DEV_REPO', '/repo')


def load_json(p):
    with open(p) as f:
        return json.load(f)


class Scratch:
    def __init__(self):
        base = '/var/tmp' if os.path.isdir('/var/tmp') and os.access('/var/tmp', os.W_OK) else tempfile.gettempdir()   # scratch only lives for the run
        self.dir = tempfile.mkdtemp(prefix='rarena-verif-', dir=base)

    def cleanup(self):
        shutil.rmtree(self.dir, ignore_errors=True)


_expanded_cache = {}


def make_sources(scratch):
    def sources(path, kind=None):
        if kind == 'expanded':
            if 'x' not in _expanded_cache:
                _expanded_cache['x'] = expand_crate(scratch)
            return _expanded_cache['x']
        with open(os.path.join(B.SRC_ROOT, path)) as f:
            return f.read()
    return sources


def expand_crate(scratch):
    """Macro-expanded text of the crate in the baseline configuration (default features), built in scratch."""
    # dependency artefacts are kept between runs (optional cache outside /tmp); the crate itself is always re-expanded
    tdir = os.environ.get('VERIF_DEV_EXPAND_TARGET', '/var/tmp/rarena-verif-cache/expand-target')  # override: developer tools only
    try:
        os.makedirs(tdir, exist_ok=True)
    except OSError:
        tdir = os.path.join(scratch.dir, 'expand-target')
    env = dict(os.environ, CARGO_NET_OFFLINE='true', CARGO_TARGET_DIR=tdir, RUSTFLAGS='')
    p = subprocess.run(['cargo', '+nightly', 'rustc', '-p', 'rarena-allocator', '--offline', '--lib', '--',
                        '-Zunpretty=expanded'], cwd=REPO, capture_output=True, text=True, env=env, timeout=900)
    if p.returncode != 0 or 'fn ' not in p.stdout:
        raise ToolLimit('macro expansion failed: ' + p.stderr[-1500:])
    return p.stdout


class ToolLimit(Exception):
    pass


def build_and_verify(unit, scratch, rlimit=None):
    """-> dict with unit text, metas, verus result, classified failures, vacuity info."""
    cfg = load_json(os.path.join(VERIF, 'units', 'units.json'))[unit]
    if cfg.get('generator'):
        from . import gen_units
        tpl = getattr(gen_units, cfg['generator'])()
    else:
        with open(os.path.join(VERIF, 'units', cfg['template'])) as f:
            tpl = f.read()
    # includes: //@@include file
    def inc(m):
        with open(os.path.join(VERIF, 'units', m.group(1))) as f:
            return f.read()
    for _ in range(3):
        tpl = re.sub(r'^//@@include (\S+)\s*$', inc, tpl, flags=re.M)
    text, metas = B.build_unit(tpl, make_sources(scratch))
    path = os.path.join(scratch.dir, unit + '.rs')
    with open(path, 'w') as f:
        f.write(text)
    keep = os.environ.get('VERIF_KEEP_UNITS')
    if keep:
        os.makedirs(keep, exist_ok=True)
        shutil.copy(path, os.path.join(keep, unit + '.rs'))
    base_rl = rlimit or cfg.get('rlimit', 60)
    res = V.run(path, rlimit=base_rl)
    # a function that ran out of resources gives no verdict at all: retry it alone with a larger budget
    full_names = list(res['functions'].keys())
    for attempt in (1,):
        starved = []
        for d in res['diags']:
            if 'Resource limit' in d.get('message', '') or 'rlimit' in d.get('message', ''):
                for s in d.get('spans', []):
                    m = re.search(r'fn\s+(\w+)', (s.get('text') or [{}])[0].get('text', ''))
                    if m:
                        starved.append((m.group(1), d))
        for name, d in starved:
            cands = [n for n in full_names if n.split('::')[-1] == name]
            if len(cands) != 1:
                continue
            pat = '::'.join(cands[0].split('::')[1:])
            r2 = V.run(path, rlimit=base_rl * 6, only_fn=pat)
            if r2.get('tool_error') or any('Resource limit' in x.get('message', '') for x in r2['diags']):
                continue
            res['diags'] = [x for x in res['diags'] if x is not d] + r2['diags']
            for k, v in r2['functions'].items():
                res['functions'][k] = v
            res['wall_s'] += r2['wall_s']
    lines = text.split('\n')
    fn_lines = []
    mask_src = text
    for i, l in enumerate(lines, 1):
        m = re.match(r'\s*(?:pub(?:\([a-z]+\))?\s+)?(?:open\s+|closed\s+)?(?:const\s+)?(?:unsafe\s+)?(?:proof\s+|spec\s+|exec\s+)?fn\s+(\w+)', l)
        if m and not l.lstrip().startswith('//'):
            fn_lines.append((i, m.group(1)))

    def fn_at_line(n):
        name = None
        for ln, nm in fn_lines:
            if ln <= n:
                name = nm
            else:
                break
        return name
    failures = [V.classify(d, lines, fn_at_line) for d in res['diags']]
    # vacuity twins: functions named *__reach must FAIL (their only claim is `false`)
    twins = sorted({nm for _, nm in fn_lines if nm.startswith('reach__')})
    twin_failed = {f['function'] for f in failures if f['function'] and f['function'].startswith('reach__')}
    vacuous = [t for t in twins if t not in twin_failed]
    failures = [f for f in failures if not (f['function'] or '').startswith('reach__')]
    return {'unit': unit, 'cfg': cfg, 'text': text, 'lines': lines, 'metas': metas, 'verus': res,
            'failures': failures, 'twins': twins, 'vacuous_twins': vacuous, 'fn_lines': fn_lines}


def fn_verdicts(bv):
    """{function name: {success,time_us,rlimit}} keyed by bare function name (last path segment)."""
    out = {}
    for full, v in bv['verus']['functions'].items():
        name = full.split('::')[-1]
        if name.startswith('reach__'):
            continue
        if name in out:
            # same name in two impls (e.g. Segment::new / Meta::new): merge conservatively
            out[name] = {'success': bool(out[name]['success'] and v['success']),
                         'time_us': (out[name]['time_us'] or 0) + (v['time_us'] or 0),
                         'rlimit': (out[name]['rlimit'] or 0) + (v['rlimit'] or 0)}
        else:
            out[name] = dict(v)
    return out
