"""Translation rules R1-R18 of DESIGN.md section 3.2 (state passing + leaf idioms -> shim primitives).

Each rule is a (name, function) pair applied to the stripped text of ONE function; the number of
rewrites per rule is recorded.  Rules never touch arithmetic, comparisons, constants, control flow or
the order of statements.  Anything a rule does not cover is left as is and will be rejected by Verus's
type/mode checking (=> exit 2: unsupported construct).
"""
import re
from .extract import scan, match_close, AnchorLost


class Ctx:
    def __init__(self, name, profile, st=None, callees=None):
        self.name = name
        self.profile = profile
        self.st = st                  # None | 'ref' | 'mut'
        self.callees = callees or {}  # fn name -> True (takes st)
        self.counts = {}

    def hit(self, rule, n=1):
        if n:
            self.counts[rule] = self.counts.get(rule, 0) + n


def _sub(ctx, rule, pat, rep, t, flags=0, count=0):
    t2, n = re.subn(pat, rep, t, count=count, flags=flags)
    ctx.hit(rule, n)
    return t2


def split_sig(t):
    """(head_up_to_open_paren, params, ret_type_or_None, body_with_braces)"""
    kw = re.search(r'\bfn\b', t)
    # generic params may contain parens (Fn(u32,u32)) - find the parameter list: first '(' at angle depth 0
    depth = 0
    po = None
    for i, ch in scan(t, kw.end()):
        if ch == '<':
            depth += 1
        elif ch == '>' and t[i - 1] != '-':
            depth -= 1
        elif ch == '(' and depth == 0:
            po = i
            break
    pc = match_close(t, po)
    bo = None
    d = 0
    for i, ch in scan(t, pc + 1):
        if ch in '([':
            d += 1
        elif ch in ')]':
            d -= 1
        elif ch == '{' and d == 0:
            bo = i
            break
    mid = t[pc + 1:bo]
    ret = None
    m = re.match(r'\s*->\s*(.*?)\s*$', mid, re.S)
    if m:
        ret = m.group(1)
    elif mid.strip():
        raise AnchorLost('unsupported signature tail: %r' % mid)
    return t[:po], t[po + 1:pc], ret, t[bo:]


def r1_signature(ctx, t):
    head, params, ret, body = split_sig(t)
    if ctx.st:
        stty = '&mut St' if ctx.st == 'mut' else '&St'
        m = re.match(r'(\s*)(&mut self|&self|mut self|self)\s*(,?)', params)
        if m:
            rest = params[m.end():]
            params = '%s%s, st: %s%s%s' % (m.group(1), m.group(2), stty, ',' if rest.strip() else '', rest)
        else:
            params = 'st: %s%s%s' % (stty, ', ' if params.strip() else '', params)
        ctx.hit('R1')
    # impl Fn params -> generic F (R14a)
    if 'impl Fn(u32, u32) -> bool' in params:
        params = params.replace('check: impl Fn(u32, u32) -> bool', 'check: F')
        head = re.sub(r'(fn\s+\w+)', r'\1<F: Fn(u32, u32) -> bool>', head, count=1)
        ctx.hit('R14')
    head = re.sub(r'\bpub\((super|crate)\)', 'pub', head)
    sig = head + '(' + params + ')'
    if ret is not None:
        sig += ' -> (r: %s)' % ret
        ctx.hit('R1ret')
    return sig, body


def r12_destructuring_assign(ctx, t):
    return _sub(ctx, 'R12', r'^(\s*)\((\w+), (\w+)\) = (.*?);',
                r'\1let t__ = \4; \2 = t__.0; \3 = t__.1;', t, flags=re.M | re.S)


def r13_const_in_fn(ctx, t):
    return _sub(ctx, 'R13', r'^(\s*)const (\w+): (\w+) = ', r'\1let \2: \3 = ', t, flags=re.M)


def r17_break_value(ctx, t):
    while True:
        m = re.search(r'let (\w+) = loop \{', t)
        if not m:
            return t
        var = m.group(1)
        ob = m.end() - 1
        cb = match_close(t, ob)
        body = t[ob:cb + 1]
        body, n = re.subn(r'\bbreak ([^;]+);', lambda mm: '%s__brk = %s; break;' % (var, mm.group(1)), body)
        if t[cb + 1] != ';' or n == 0:
            raise AnchorLost('R17: unexpected loop-with-value shape')
        t = (t[:m.start()] + 'let mut %s__brk: u32 = 0; loop ' % var + body +
             '\n    let %s = %s__brk;' % (var, var) + t[cb + 2:])
        ctx.hit('R17')


def r19_panics(ctx, t):
    """assert!(C, "msg"); -> if !(C) { rt_panic(); }   panic!("msg") -> rt_panic()   (shim: requires false)"""
    t = _sub(ctx, 'R19', r'\bassert!\(((?:[^()"]|\([^()]*\))*?),\s*"[^"]*"\s*\);', r'if !(\1) { rt_panic(); }', t)
    t = _sub(ctx, 'R19', r'\bpanic!\("[^"]*"\)', 'rt_panic()', t)
    return t


def r3b_header_writes(ctx, t):
    """insert `st.touch_hdr();` (no-op, requires writable) before every statement that writes a header field"""
    lines = t.split('\n')
    out = []
    pat = re.compile(r'st\.hdr\.\w+\s*(\+=|-=|=(?!=))|st\.hdr\s*\.\s*\w+\s*\.\s*(store|fetch_add|fetch_sub|compare_exchange|compare_exchange_weak)\(')
    i = 0
    while i < len(lines):
        l = lines[i]
        # a method chain may span lines: look at the statement text up to its first ';' or '{'
        stmt = l
        k = i
        while stmt.strip() and not re.search(r'[;{}]\s*$', stmt) and k + 1 < len(lines) and k - i < 6:
            k += 1
            stmt += ' ' + lines[k].strip()
        if pat.search(stmt) and not l.strip().startswith('.') and not re.match(r'\s*(\}|\)|\.)', l):
            indent = re.match(r'\s*', l).group(0)
            out.append(indent + 'st.touch_hdr();')
            ctx.hit('R3b')
            out.extend(lines[i:k + 1])
            i = k + 1
            continue
        out.append(l)
        i += 1
    return '\n'.join(out)


def common_state(ctx, t):
    """R2-R5, R8: header access, cells, state passing."""
    # R3 header
    t = _sub(ctx, 'R3', r'^\s*let header = self\.header(_mut)?\(\);\n', '', t, flags=re.M)
    t = _sub(ctx, 'R3', r'self\s*\.\s*header(_mut)?\(\)\s*\.\s*', 'st.hdr.', t)
    t = _sub(ctx, 'R3', r'(?<![\w.])header\s*\.\s*', 'st.hdr.', t)
    # R4 cell types and the sentinel
    t = _sub(ctx, 'R4', r'&UnsafeCell<u64>', 'CellRef', t)
    t = _sub(ctx, 'R4', r'&AtomicU64', 'CellRef', t)
    t = _sub(ctx, 'R4', r'&st\.hdr\.sentinel', 'CellRef::Sentinel', t)
    # R5 UnsafeCell access
    t = _sub(ctx, 'R5', r'\*st\.hdr\.sentinel\.as_inner_mut\(\) = (.*?);', r'st.store(CellRef::Sentinel, \1);', t, flags=re.S)
    t = _sub(ctx, 'R5', r'st\.hdr\.sentinel\.as_inner_ref\(\)', 'st.load(CellRef::Sentinel)', t)
    t = _sub(ctx, 'R5', r'\*(\w+)\.as_inner_ref_mut\(\) = (.*?);', r'st.store(\1, \2);', t, flags=re.S)
    t = _sub(ctx, 'R5', r'(?<![\w.])(\w+)\.as_inner_ref\(\)', r'st.load(\1)', t)
    # R8 segment node store (unsync)
    t = _sub(ctx, 'R8', r'\*self\.as_mut\(\)\.as_inner_mut\(\) = (.*?);', r'st.store(CellRef::Node(self.ptr_offset), \1);', t, flags=re.S)
    # R2 state passing
    for g in sorted(ctx.callees, key=len, reverse=True):
        t = _sub(ctx, 'R2', r'(\bself\s*\.\s*' + g + r')\(\s*\)', r'\1(st)', t)
        t = _sub(ctx, 'R2', r'(\bself\s*\.\s*' + g + r'(?:::<\w+>)?)\((?!st[,)])', r'\1(st, ', t)
    t = _sub(ctx, 'R2', r'(\w+\.update_next_node)\((?!st,)', r'\1(st, ', t)
    t = _sub(ctx, 'R2', r'(\w+)\.clear\(self\)', r'\1.clear(self, st)', t)
    t = _sub(ctx, 'R2', r'Segment::from_offset\(self, ', 'Segment::from_offset(self, ', t)
    # R21 raw zero-fill of arena bytes through the base pointer -> the shim's write_bytes primitive
    A = r'([^(),]*(?:\([^()]*\))?[^(),]*?)'
    t = _sub(ctx, 'R21', r'(?:core::)?ptr::write_bytes\(\s*self\.ptr\.add\(' + A + r'\),\s*' + A + r',\s*' + A + r',?\s*\)', r'st.write_bytes(\1, \2, \3)', t)
    # R11 paths
    t = re.sub(r'(?<![:\w])mem::(size_of|align_of|needs_drop)', r'core::mem::\1', t)
    return t


def sync_atomics(ctx, t):
    """R6: atomics on cells -> shim primitives with sequential semantics."""
    t = _sub(ctx, 'R6', r'st\.hdr\.sentinel\s*\.\s*load\(', 'st.cell_load(CellRef::Sentinel, ', t)
    t = _sub(ctx, 'R6', r'st\.hdr\.sentinel\s*\.\s*compare_exchange\(\s*', 'st.cell_cas(CellRef::Sentinel, ', t)
    t = _sub(ctx, 'R6', r'(?<![\.\w])(\w+)\s*\.\s*load\(Ordering', r'st.cell_load(\1, Ordering', t)
    t = _sub(ctx, 'R6', r'(?<![\.\w])(\w+)\s*\.\s*compare_exchange\(\s*', r'st.cell_cas(\1, ', t)
    t = _sub(ctx, 'R8', r'self\s*\.\s*as_ref\(\)\s*\.\s*store\(', 'st.cell_store(CellRef::Node(self.ptr_offset), ', t)
    return t


def closure_sites(t):
    """[(start, params_end, body_start, body_end, braced, p1, p2)] for closures |a, b| .. and |a| .. (p2 = None)"""
    out = []
    for m in re.finditer(r'(?<![|&])\|(\w+)(?:, (\w+))?\|\s*', t):
        j = m.end()
        if t[j] == '{':
            e = match_close(t, j)
            out.append((m.start(), m.end(), j, e + 1, True, m.group(1), m.group(2)))
        else:
            # expression until the ')' that closes the enclosing call or a ',' at depth 0
            d = 0
            e = None
            for i, ch in scan(t, j):
                if ch in '([{':
                    d += 1
                elif ch in ')]}':
                    if d == 0:
                        e = i
                        break
                    d -= 1
                elif ch == ',' and d == 0:
                    e = i
                    break
            out.append((m.start(), m.end(), j, e, False, m.group(1), m.group(2)))
    return out


def r14_closures(ctx, t, closure_specs):
    """Give closure literals typed params and the ensures clause from the spec file."""
    sites = closure_sites(t)
    if len(sites) != len(closure_specs):
        if not sites and not closure_specs:
            return t
        raise AnchorLost('closure count %d != spec count %d in %s' % (len(sites), len(closure_specs), ctx.name))
    for site, spec in reversed(list(zip(sites, closure_specs))):
        s, pe, bs, be, braced, a, b = site
        body = t[bs:be] if braced else '{ ' + t[bs:be].strip() + ' }'
        mm = re.match(r'\s*\[(.*?)\]\s*->\s*\((.*?)\)\s*:(.*)$', spec.strip(), re.S)
        if mm:      # `[a: Option<Meta>] -> (h: Handle): ensures-expression`
            new = '|%s| -> (%s)\n        ensures %s\n      %s' % (mm.group(1), mm.group(2), mm.group(3).strip(), body)
        else:
            new = '|%s: u32, %s: u32| -> (b: bool)\n        ensures %s\n      %s' % (a, b, spec.strip(), body)
        t = t[:s] + new + t[be:]
        ctx.hit('R14')
    return t


PROFILES = ('verbatim', 'unsync', 'sync', 'plain')


_CALL = r'(?P<call>(?:[\w]+(?:::|\.))*\w+\((?:[^()]|\([^()]*\))*\))'


def r22_result_adapters(ctx, t):
    """R22: closure adapters on a Result are written out as the `match` they abbreviate (std semantics):
         CALL.inspect(|v| S).map_err(Into::into)  ==  match CALL { Ok(v) => { S[*v := v]; Ok(v) } Err(e__) => Err(err_into(e__)) }
         CALL.map(|(a, b)| E)                     ==  match CALL { Ok((a, b)) => Ok(E), Err(e__) => Err(e__) }
         CALL.map(|(a, b)| E).unwrap()            ==  match CALL { Ok((a, b)) => E, Err(_) => rt_panic_documented_val() }
         CALL.inspect(|v| S).unwrap()             ==  match CALL { Ok(v) => { S[*v := v]; v } Err(_) => rt_panic_documented_val() }
       (`err_into` is the unit's name for the `From` conversion of the error type)"""
    def insp(m):
        v, st = m.group('v'), m.group('s').strip()
        st = re.sub(r'\*' + re.escape(v) + r'\b', v, st)
        return 'match %s { Ok(%s) => { %s; Ok(%s) } Err(e__) => Err(err_into(e__)) }' % (m.group('call'), v, st, v)
    t2 = re.sub(_CALL + r'\s*\.inspect\(\|(?P<v>\w+)\|\s*(?P<s>[^|;{}]+?)\)\s*\.map_err\(Into::into\)', insp, t)
    if t2 != t:
        ctx.hit('R22')
    t = t2
    def inspu(m):
        v, st = m.group('v'), m.group('s').strip()
        st = re.sub(r'\*' + re.escape(v) + r'\b', v, st)
        return 'match %s { Ok(%s) => { %s; %s } Err(_) => rt_panic_documented_val() }' % (m.group('call'), v, st, v)
    t2 = re.sub(_CALL + r'\s*\.inspect\(\|(?P<v>\w+)\|\s*(?P<s>[^|;{}]+?)\)\s*\.unwrap\(\)', inspu, t)
    if t2 != t:
        ctx.hit('R22')
    t = t2
    def mpu(m):
        return 'match %s { Ok((%s, %s)) => %s, Err(_) => rt_panic_documented_val() }' % (m.group('call'), m.group('a'), m.group('b'), m.group('e').strip())
    t2 = re.sub(_CALL + r'\s*\.map\(\|\((?P<a>\w+), (?P<b>\w+)\)\|\s*(?P<e>\((?:[^()]|\([^()]*\))*\))\)\s*\.unwrap\(\)', mpu, t)
    if t2 != t:
        ctx.hit('R22')
    t = t2
    def mp(m):
        return 'match %s { Ok((%s, %s)) => Ok(%s), Err(e__) => Err(e__) }' % (m.group('call'), m.group('a'), m.group('b'), m.group('e').strip())
    t2 = re.sub(_CALL + r'\s*\.map\(\|\((?P<a>\w+), (?P<b>\w+)\)\|\s*(?P<e>\((?:[^()]|\([^()]*\))*\))\)(?!\s*\.)', mp, t)
    if t2 != t:
        ctx.hit('R22')
    return t2


def r24_io_error_adapters(ctx, t):
    """R24 (profile plain): the std::io wrappers `write_*` / `io::Write::write`
         CALL.map_err(|e| std::io::Error::new(std::io::ErrorKind::K, e))[.map(|_| E)]
           ==  match CALL { Ok(v__) => Ok(v__ | E), Err(e) => Err(io_error_new(IoKind::K, e)) }
       (`io_error_new` / `IoKind` are the unit's names for std::io::Error::new / ErrorKind: an opaque error that records
       kind and source); `std::io::Result<X>` in the signature is written `Result<X, IoError>`."""
    def rep(m):
        ok = 'Ok(_) => Ok(%s)' % m.group('e').strip() if m.group('e') else 'Ok(v__) => Ok(v__)'
        return 'match %s { %s, Err(%s) => Err(io_error_new(IoKind::%s, %s)) }' % (m.group('call'), ok, m.group('v'), m.group('k'), m.group('v'))
    t2 = re.sub(_CALL + r'\s*\.map_err\(\|(?P<v>\w+)\|\s*std::io::Error::new\(std::io::ErrorKind::(?P<k>\w+),\s*(?P=v)\)\)'
                r'(?:\s*\.map\(\|_\|\s*(?P<e>(?:[^()|;{}]|\([^()]*\))+?)\))?(?!\s*\.)', rep, t)
    if t2 != t:
        ctx.hit('R24')
    return t2


def r23_slice_ranges(ctx, t):
    """R23 (option slices=1): range indexing of a byte slice becomes a helper with the panic condition as precondition:
       &E[a..b] -> slice_range(E, a, b); &E[a..] -> slice_from(E, a); &E[..b] -> slice_to(E, b)"""
    def rep(m):
        e, a, b = m.group('e'), m.group('a').strip(), m.group('b').strip()
        if a and b:
            return 'slice_range(%s, %s, %s)' % (e, a, b)
        if a:
            return 'slice_from(%s, %s)' % (e, a)
        if b:
            return 'slice_to(%s, %s)' % (e, b)
        return e
    t2 = re.sub(r'&(?P<e>[\w.]+(?:\(\))?)\[(?P<a>[^\[\]]*?)\.\.(?P<b>[^\[\]]*?)\]', rep, t)
    if t2 != t:
        ctx.hit('R23')
    return t2


def translate(text, ctx, closure_specs=()):
    """text = stripped fn text. Returns (signature, body)."""
    t = text
    if ctx.profile != 'verbatim':
        t = r12_destructuring_assign(ctx, t)
        t = r13_const_in_fn(ctx, t)
        t = r17_break_value(ctx, t)
    if ctx.profile != 'verbatim':
        t = r19_panics(ctx, t)
    sig, body = r1_signature(ctx, t)
    if ctx.profile != 'verbatim' and re.search(r'\(\s*mut self\b', sig):
        # R20: Verus has no `mut self` parameters: take `self` by value and work on a local copy named this__
        sig = re.sub(r'\(\s*mut self\b', '(self', sig, count=1)
        inner = re.sub(r'(?<![\w.])self\b', 'this__', body[body.index('{') + 1:body.rindex('}')])
        body = '{\n    let mut this__ = self;' + inner + '}'
        ctx.hit('R20')
    if ctx.profile in ('unsync', 'sync'):
        sig = _sub(ctx, 'R4', r'&UnsafeCell<u64>', 'CellRef', sig)
        sig = _sub(ctx, 'R4', r'&AtomicU64', 'CellRef', sig)
        body = common_state(ctx, body)
        if ctx.profile == 'sync':
            body = sync_atomics(ctx, body)
        body = r3b_header_writes(ctx, body)
    if ctx.profile == 'plain':
        body = r22_result_adapters(ctx, body)
        body = r24_io_error_adapters(ctx, body)
        if 'std::io::Result<' in sig:
            sig = re.sub(r'std::io::Result<((?:[^<>]|<[^<>]*>)*)>', r'Result<\1, IoError>', sig)
            ctx.hit('R24')
        if getattr(ctx, 'slices', False):
            body = r23_slice_ranges(ctx, body)
    body = r14_closures(ctx, body, closure_specs)
    if ctx.profile != 'verbatim':
        body = re.sub(r'(?<![:\w])mem::(size_of|align_of|needs_drop)', r'core::mem::\1', body)
    return sig, body
