"""Kani stage: harnesses from /verif/kani/*.rs are injected into a SCRATCH COPY of /repo's working tree as child modules
(so they see private items) and run with `cargo kani` on the real compiled code.  /repo itself is never touched."""
import json
import os
import re
import shutil
import subprocess
import time

VERIF = os.path.dirname(os.path.dirname(os.path.abspath(__file__)))
INJECT = [
    ('lib', 'rarena-allocator/src/lib.rs', 'rarena-allocator/src/verif_kani_lib.rs', 'lib_harness.rs', '\n#[cfg(kani)]\nmod verif_kani_lib;\n'),
    ('unsync', 'rarena-allocator/src/unsync.rs', 'rarena-allocator/src/unsync/verif_kani_unsync.rs', 'unsync_harness.rs', '\n#[cfg(kani)]\npub(crate) mod verif_kani_unsync;\n'),
    ('sync', 'rarena-allocator/src/sync.rs', 'rarena-allocator/src/sync/verif_kani_sync.rs', 'sync_harness.rs', '\n#[cfg(kani)]\nmod verif_kani_sync;\n'),
]


def harnesses():
    with open(os.path.join(VERIF, 'kani', 'harnesses.json')) as f:
        return json.load(f)


def prepare(scratch_dir):
    dst = os.path.join(scratch_dir, 'kani-repo')
    if os.path.exists(dst):
        return dst
    subprocess.run(['rsync', '-a', '--exclude', 'target', '--exclude', '.git', os.environ.get('VERIF_DEV_REPO', '/repo').rstrip('/') + '/', dst + '/'], check=True)  # override: developer tools only
    for mod, host, path, src, decl in INJECT:
        os.makedirs(os.path.dirname(os.path.join(dst, path)), exist_ok=True)
        shutil.copy(os.path.join(VERIF, 'kani', src), os.path.join(dst, path))
        with open(os.path.join(dst, host), 'a') as f:
            f.write(decl)
    return dst


def _target(repo_copy):
    # build output lives next to the scratch copy (removed with it): a fresh build of the crate and its dependencies
    # takes ~10 s, and concurrent checks do not wait for each other's cargo lock
    return os.path.join(os.path.dirname(repo_copy), 'kani-target')


def run_batch(repo_copy, sel, jobs=8, timeout=5400):
    """one `cargo kani` call for several harnesses (-j): returns {name: partial result} for those that SUCCEEDED;
    anything else (failed, unparsable) is left to an individual run, which gives failed checks and the counterexample"""
    done = {}
    groups = {}
    for n, i in sel:
        groups.setdefault(i.get('features') or '', []).append((n, i))
    for feat, items in groups.items():
        if len(items) < 2:
            continue
        cmd = ['cargo', 'kani', '-p', 'rarena-allocator', '-j', str(min(jobs, len(items))), '--output-format', 'terse']
        for n, _ in items:
            cmd += ['--harness', n]
        if feat:
            cmd += ['--features', feat]
        env = dict(os.environ, CARGO_NET_OFFLINE='true', CARGO_TARGET_DIR=_target(repo_copy))
        t0 = time.time()
        try:
            p = subprocess.run(cmd, cwd=repo_copy, capture_output=True, text=True, env=env, timeout=timeout)
        except subprocess.TimeoutExpired:
            continue
        out = p.stdout + p.stderr
        cur = {}
        lines = out.splitlines()
        k = 0
        while k < len(lines):
            l = lines[k]
            m = re.match(r'Thread (\d+): Checking harness (\S+?)\.\.\.', l)
            if m:
                cur[m.group(1)] = m.group(2).split('::')[-1]
            m = re.match(r'Thread (\d+):\s*$', l)
            if m and m.group(1) in cur:
                blk = '\n'.join(lines[k + 1:k + 9])
                name = cur.pop(m.group(1))
                mm = re.search(r'\*\* (\d+) of (\d+) failed', blk)
                vt = re.search(r'Verification Time: ([0-9.]+)s', blk)
                if 'VERIFICATION:- SUCCESSFUL' in blk and mm and mm.group(1) == '0' and name in dict(items):
                    done[name] = {'name': name, 'status': 'ok', 'wall_s': round(time.time() - t0, 1), 'cbmc_s': float(vt.group(1)) if vt else None,
                                  'checks': int(mm.group(2)), 'failed_checks': '', 'cmd': ' '.join(cmd), 'playback_tests': [], 'output_tail': blk}
            k += 1
    return done


def run_harness(repo_copy, name, info, timeout=1800, playback=False):
    cmd = ['cargo', 'kani', '-p', 'rarena-allocator', '--harness', name]
    if info.get('features'):
        cmd += ['--features', info['features']]
    if playback:
        cmd += ['-Z', 'concrete-playback', '--concrete-playback=inplace']
    env = dict(os.environ, CARGO_NET_OFFLINE='true', CARGO_TARGET_DIR=_target(repo_copy))
    t0 = time.time()
    try:
        p = subprocess.run(cmd, cwd=repo_copy, capture_output=True, text=True, env=env, timeout=timeout)
        out = p.stdout + p.stderr
    except subprocess.TimeoutExpired:
        return {'name': name, 'status': 'timeout', 'wall_s': time.time() - t0, 'cmd': ' '.join(cmd), 'failed_checks': '', 'output_tail': ''}
    wall = time.time() - t0
    if 'VERIFICATION:- SUCCESSFUL' in out and 'Checking harness' in out:
        status = 'ok'
    elif 'VERIFICATION:- FAILED' in out and re.search(r'\*\* [1-9]\d* of \d+ failed', out) and 'Failed Checks:' in out \
            and 'out of memory' not in out and 'CBMC failed' not in out:
        # a property violation: CBMC finished and names the failed checks.  Anything else that ends in FAILED (CBMC ran
        # out of memory, crashed, was killed) is a tool problem: no verdict from this harness
        status = 'failed'
    else:
        status = 'error'
    m = re.search(r'\*\* (\d+) of (\d+) failed', out)
    failed = re.findall(r'Failed Checks: (.*)', out)
    tests = re.findall(r'- (kani_concrete_playback_\w+)', out)
    vt = re.search(r'Verification Time: ([0-9.]+)s', out)
    return {'name': name, 'status': status, 'wall_s': round(wall, 1), 'cbmc_s': float(vt.group(1)) if vt else None,
            'checks': int(m.group(2)) if m else 0, 'failed_checks': '; '.join(failed), 'cmd': ' '.join(cmd),
            'playback_tests': tests, 'output_tail': '\n'.join([l for l in out.splitlines() if not l.startswith('aborting path')][-40:])}


def native_replay(repo_copy, test_name, features=None, timeout=900):
    """run the concrete counterexample natively (no CBMC): `cargo kani playback`"""
    cmd = ['cargo', 'kani', 'playback', '-Z', 'concrete-playback', '-p', 'rarena-allocator']
    if features:
        cmd += ['--features', features]
    cmd += ['--', test_name]
    env = dict(os.environ, CARGO_NET_OFFLINE='true', CARGO_TARGET_DIR=_target(repo_copy))
    try:
        p = subprocess.run(cmd, cwd=repo_copy, capture_output=True, text=True, env=env, timeout=timeout)
    except subprocess.TimeoutExpired:
        return {'cmd': ' '.join(cmd), 'result': 'timeout', 'output': ''}
    out = p.stdout + p.stderr
    lines = [l for l in out.splitlines() if re.search(r'^test |panicked|test result|assertion', l)]
    return {'cmd': ' '.join(cmd), 'result': 'reproduced natively (test failed)' if 'FAILED' in out else 'not reproduced', 'output': '\n'.join(lines[:20])}


def run_for_property(prop, scratch_dir, include_slow, only=None, lazy_slow=False):
    hs = harnesses()
    sel = [(n, i) for n, i in hs.items() if prop in i['props'] and (include_slow or not i.get('slow')) and (only is None or n in only)]
    if not sel:
        return []
    rc = prepare(scratch_dir)
    results = []
    def one(n, i, batch):
        r = batch.get(n) or run_harness(rc, n, i)
        r.update(kind=i['kind'], what=i['what'], props=i['props'])
        if r['status'] == 'failed':
            r2 = run_harness(rc, n, i, playback=True)
            r['playback_tests'] = r2.get('playback_tests', [])
            with open(os.path.join(rc, dict((m, p) for m, _, p, _, _ in INJECT)[i['module']])) as f:
                src = f.read()
            mm = re.findall(r'let concrete_vals: Vec<Vec<u8>> = vec!\[(.*?)\];', src, re.S)
            r['concrete_vals'] = [re.sub(r'\s+', ' ', x).strip() for x in mm][-3:]
            r['native'] = [native_replay(rc, t, i.get('features')) for t in r['playback_tests'][:2]]
        return r
    # two phases (fast harnesses, then slow ones); the harnesses of a phase are checked in one parallel `cargo kani -j`
    for phase in (False, True):
        part = [(n, i) for n, i in sel if bool(i.get('slow')) == phase]
        if not part:
            continue
        if phase and lazy_slow and any(r['status'] == 'failed' for r in results):
            continue  # fallback mode: a counterexample is already in hand, the slow harnesses add nothing
        batch = run_batch(rc, part)
        for n, i in part:
            results.append(one(n, i, batch))
    return results

