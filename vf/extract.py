"""Mechanical extraction of function text from the current /repo sources.

Everything here works on source text with a small Rust-aware scanner (comments, string and char
literals are skipped when matching braces).  Nothing is cached between runs.
"""
import hashlib
import re


class AnchorLost(Exception):
    """An extraction or injection anchor no longer matches the source (=> exit 2, never an alarm)."""


def _skip_string(s, i):
    # s[i] == '"'
    i += 1
    n = len(s)
    while i < n:
        c = s[i]
        if c == '\\':
            i += 2
            continue
        if c == '"':
            return i + 1
        i += 1
    return n


def _skip_raw_string(s, i):
    # s[i] == 'r', followed by #* and "
    j = i + 1
    hashes = 0
    while j < len(s) and s[j] == '#':
        hashes += 1
        j += 1
    if j >= len(s) or s[j] != '"':
        return None
    end = s.find('"' + '#' * hashes, j + 1)
    return len(s) if end < 0 else end + 1 + hashes


def scan(s, start=0):
    """Yield (index, char) for every code character (outside comments / literals)."""
    i = start
    n = len(s)
    while i < n:
        c = s[i]
        if c == '/' and i + 1 < n and s[i + 1] == '/':
            j = s.find('\n', i)
            i = n if j < 0 else j
            continue
        if c == '/' and i + 1 < n and s[i + 1] == '*':
            depth = 1
            i += 2
            while i < n and depth:
                if s.startswith('/*', i):
                    depth += 1
                    i += 2
                elif s.startswith('*/', i):
                    depth -= 1
                    i += 2
                else:
                    i += 1
            continue
        if c == '"':
            i = _skip_string(s, i)
            continue
        if c == 'r' and i + 1 < n and s[i + 1] in '#"' and (i == 0 or not (s[i - 1].isalnum() or s[i - 1] == '_')):
            j = _skip_raw_string(s, i)
            if j is not None:
                i = j
                continue
        if c == 'b' and i + 1 < n and s[i + 1] == '"' and (i == 0 or not (s[i - 1].isalnum() or s[i - 1] == '_')):
            i = _skip_string(s, i + 1)
            continue
        if c == "'":
            # char literal or lifetime
            m = re.match(r"'(\\.[^']*|[^'\\])'", s[i:i + 12])
            if m:
                i += m.end()
                continue
            i += 1
            continue
        yield i, c
        i += 1


def match_close(s, open_idx):
    """Index of the bracket closing the one at open_idx ('{', '(' or '[')."""
    o = s[open_idx]
    c = {'{': '}', '(': ')', '[': ']'}[o]
    depth = 0
    for i, ch in scan(s, open_idx):
        if ch == o:
            depth += 1
        elif ch == c:
            depth -= 1
            if depth == 0:
                return i
    raise AnchorLost('unbalanced %s at %d' % (o, open_idx))


def code_mask(s):
    """bytearray: 1 where the character is code (not comment / literal)."""
    m = bytearray(len(s))
    for i, _ in scan(s):
        m[i] = 1
    return m


def find_scopes(src, scope):
    """All (start, end) extents of blocks whose header line starts with `scope` (e.g. 'impl Arena {')."""
    out = []
    for m in re.finditer(r'^[ \t]*' + re.escape(scope), src, re.M):
        ob = src.index('{', m.start())
        out.append((m.start(), match_close(src, ob) + 1))
    return out


FN_RE = r'^[ \t]*(?:#\[[^\]]*\][ \t]*\n[ \t]*)*(?:pub(?:\([a-z:]+\))?[ \t]+)?(?:const[ \t]+)?(?:unsafe[ \t]+)?fn[ \t]+%s\b'


def extract_fn(src, name, scope=None, nth=None):
    """Return (text, start_index, end_index) of fn `name` (signature..closing brace).

    With `scope`, the function is searched inside every block that starts with that text and must be
    found in exactly one of them (unless nth selects)."""
    regions = find_scopes(src, scope) if scope else [(0, len(src))]
    if scope and not regions:
        raise AnchorLost('scope not found: %r' % scope)
    mask = code_mask(src)
    hits = []
    for (a, b) in regions:
        for m in re.finditer(FN_RE % re.escape(name), src[a:b], re.M):
            fn_kw = a + m.start() + src[a + m.start():a + m.end()].rfind('fn')
            if not mask[fn_kw]:
                continue
            # start of the item = first non-attribute token of the match
            seg = src[a + m.start():a + m.end()]
            k = 0
            while True:
                mm = re.match(r'[ \t]*#\[[^\]]*\][ \t]*\n', seg[k:])
                if not mm:
                    break
                k += mm.end()
            k += len(seg[k:]) - len(seg[k:].lstrip(' \t'))
            start = a + m.start() + k
            # body start: first '{' at paren/bracket depth 0 after the fn keyword
            depth = 0
            ob = None
            for i, ch in scan(src, fn_kw):
                if ch in '([':
                    depth += 1
                elif ch in ')]':
                    depth -= 1
                elif ch == '{' and depth == 0:
                    ob = i
                    break
                elif ch == ';' and depth == 0:
                    break  # declaration without body
            if ob is None:
                continue
            end = match_close(src, ob) + 1
            hits.append((start, end))
    if nth is None:
        if len(hits) != 1:
            raise AnchorLost('fn %s in scope %r: %d matches' % (name, scope, len(hits)))
        nth = 1
    if len(hits) < nth:
        raise AnchorLost('fn %s in scope %r: %d matches' % (name, scope, len(hits)))
    s, e = hits[nth - 1]
    return src[s:e], s, e


def line_of(src, idx):
    return src.count('\n', 0, idx) + 1


def sha(text):
    return hashlib.sha256(text.encode()).hexdigest()[:16]


DROP_ATTR = re.compile(r'^\s*#\[(inline|allow|cfg_attr\(docsrs|doc|must_use)[^\]]*\]\s*$')


def strip(text):
    """Drop what DESIGN.md 3.1 says is dropped: comments, doc comments, #[inline]/#[allow]/docsrs
    attributes, and every statement guarded by #[cfg(feature = "tracing")]."""
    # remove comments (scanner-aware)
    mask = code_mask(text)
    out = []
    i = 0
    n = len(text)
    while i < n:
        if not mask[i] and text.startswith('//', i):
            j = text.find('\n', i)
            i = n if j < 0 else j
            continue
        if not mask[i] and text.startswith('/*', i):
            j = text.find('*/', i)
            i = n if j < 0 else j + 2
            continue
        out.append(text[i])
        i += 1
    text = ''.join(out)
    lines = text.split('\n')
    res = []
    i = 0
    while i < len(lines):
        l = lines[i]
        s = l.strip()
        if DROP_ATTR.match(l):
            i += 1
            continue
        if s.startswith('#[cfg(feature = "tracing")]'):
            # drop the following statement: up to the ';' that closes it at depth 0
            rest = '\n'.join(lines[i + 1:])
            depth = 0
            endpos = None
            for k, ch in scan(rest):
                if ch in '([{':
                    depth += 1
                elif ch in ')]}':
                    depth -= 1
                elif ch == ';' and depth == 0:
                    endpos = k
                    break
            if endpos is None:
                raise AnchorLost('tracing statement without end')
            consumed = rest[:endpos + 1].count('\n') + 1
            i += 1 + consumed
            continue
        if s == '' and res and res[-1].strip() == '':
            i += 1
            continue
        res.append(l.rstrip())
        i += 1
    return '\n'.join(res)


def normalize_expanded(text):
    """-Zunpretty=expanded breaks lines inside expressions; re-flow: one statement / brace per line."""
    out = []
    i = 0
    n = len(text)
    mask = code_mask(text)
    buf = []
    for i, ch in enumerate(text):
        if mask[i] and ch in ' \t\n':
            if buf and buf[-1] != ' ':
                buf.append(' ')
            continue
        buf.append(ch)
    s = ''.join(buf)
    # break after ; { } (outside parens/brackets)
    res = []
    depth = 0
    cur = []
    m2 = code_mask(s)
    for i, ch in enumerate(s):
        cur.append(ch)
        if not m2[i]:
            continue
        if ch in '([':
            depth += 1
        elif ch in ')]':
            depth -= 1
        elif ch in ';{}' and depth == 0:
            res.append(''.join(cur).strip())
            cur = []
    if ''.join(cur).strip():
        res.append(''.join(cur).strip())
    # indent
    lines = []
    ind = 0
    for l in res:
        if l.startswith('}'):
            ind = max(0, ind - 1)
        lines.append('  ' * ind + l)
        if l.endswith('{'):
            ind += 1
    return '\n'.join(lines)
