import argparse
import json
import os
import re
import sys
import time
import traceback

from . import extract as X
from . import run as R
from . import verus as V
from . import kani as K

VERIF = R.VERIF


C11_CARRIERS = {'C03', 'C10', 'C20', 'C17', 'C11'}   # clauses that fix observable results / state


def attribute(f, fn_props, prop, shared=(), unit=None):
    """Does failure f count against property prop?"""
    if prop == 'C11':
        # C11 = both flavours satisfy the same (functional) contract: any failing observable clause of a
        # function under a shared contract file breaks it
        if f['function'] not in shared:
            return False
        return (not f['labels']) or bool(set(f['labels']) & C11_CARRIERS)
    if f['labels']:
        return prop in f['labels']
    props = fn_props.get(f['function'], None)
    if f['kind'].startswith('possible arithmetic') or f['kind'].startswith('possible bit shift') or f['kind'].startswith('possible division'):
        if props is None:
            return prop == 'C04'
        if prop == 'C04' and unit in ('U_unsync', 'U_sync'):
            # every function of the arena units is reachable from an allocation call (the slow paths release leftovers
            # through dealloc / try_new_segment / the list helpers): wrapping size arithmetic anywhere there breaks C04
            return True
        return prop == 'C04' if 'C04' in props else prop in props
    if props is None:
        return True     # unlabeled failure in a hand-written lemma: undecided for everyone using the unit
    return prop in props


def known(kf, prop, f):
    for e in kf.get('findings', []):
        if e.get('property') != prop or e.get('status', 'open') != 'open':
            continue
        if e.get('function') == f['function'] and e.get('clause_contains', '') in (f['clause'] + ' ' + f['site']):
            return e
    return None


def main(argv):
    ap = argparse.ArgumentParser()
    ap.add_argument('prop')
    ap.add_argument('--tier', default=os.environ.get('VERIF_TIER', 'quick'))
    args = ap.parse_args(argv)
    prop = args.prop
    tier = args.tier if args.tier in ('quick', 'thorough') else 'quick'
    seed = int(os.environ.get('VERIF_SEED', '0') or 0)
    props = R.load_json(os.path.join(VERIF, 'props.json'))
    if prop not in props:
        print('property %s is not claimed (see MANIFEST.json not_applicable)' % prop)
        return 2
    pc = props[prop]
    kf = R.load_json(os.path.join(VERIF, 'known_findings.json'))
    t0 = time.time()
    sc = R.Scratch()
    try:
        return run_property(prop, pc, kf, tier, seed, sc, t0)
    except X.AnchorLost as e:
        print('TOOL-LIMIT property=%s anchor lost / unsupported construct: %s' % (prop, e))
        return 2
    except R.ToolLimit as e:
        print('TOOL-LIMIT property=%s %s' % (prop, e))
        return 2
    finally:
        sc.cleanup()


def run_property(prop, pc, kf, tier, seed, sc, t0):
    units = pc['units']
    results = []
    unit_errors = []
    for u in units:
        try:
            bv = R.build_and_verify(u, sc)
        except X.AnchorLost as e:
            unit_errors.append('%s: anchor lost / unsupported construct: %s' % (u, e))
            continue
        results.append(bv)
    tool_problems = []
    undecided = []
    violations = []
    known_hits = []
    obligations = []
    functions_under_contract = []
    smt_ms = 0
    vac = {}
    for bv in results:
        v = bv['verus']
        smt_ms += v.get('smt_ms', 0) or 0
        if v.get('tool_error'):
            tool_problems.append('%s: %s' % (bv['unit'], v['tool_error']))
        if bv['vacuous_twins']:
            tool_problems.append('%s: vacuity guard verified (contradictory requires?): %s' % (bv['unit'], bv['vacuous_twins']))
        vac[bv['unit']] = {'twins': len(bv['twins']), 'twins_rejected': len(bv['twins']) - len(bv['vacuous_twins'])}
        fn_props = {m['function']: m['props'] for m in bv['metas']}
        verd = R.fn_verdicts(bv)
        lemma_props = bv['cfg'].get('lemma_props', [])
        extracted = {m['function'] for m in bv['metas']}
        for f in bv['failures']:
            if not f['semantic']:
                tool_problems.append('%s: %s in %s: %s' % (bv['unit'], f['kind'], f['function'], f['site']))
        degraded = {m['function'] for m in bv['metas'] if m.get('lost_hints')}
        sem_all = [f for f in bv['failures'] if f['semantic']]
        # a function whose injected proof hints were lost gives no Verus verdict when it fails: undecided, handed to Kani
        sem = [f for f in sem_all if f['function'] not in degraded]
        for m in bv['metas']:
            if m.get('not_checked') and (prop in m['props'] or (prop == 'C11' and m.get('contract_file'))):
                undecided.append('%s::%s not verified this run: proof hints lost (%s)' % (bv['unit'], m['function'], '; '.join(m['lost_hints'][:3])))
        for f in sem_all:
            if f['function'] in degraded:
                undecided.append('%s::%s (%s; proof hints lost: %s)' % (bv['unit'], f['function'], f['kind'], '; '.join([m for mm in bv['metas'] if mm['function'] == f['function'] for m in mm['lost_hints']][:3])))
        shared = {m['function'] for m in bv['metas'] if m.get('contract_file')}
        if prop == 'C11':
            for m in bv['metas']:
                if m.get('contract_file') and 'C11' not in m['props']:
                    m['props'].append('C11')
            fn_props = {m['function']: m['props'] for m in bv['metas']}
        mine = [f for f in sem if attribute(f, fn_props, prop, shared, bv['unit'])]
        for m in bv['metas']:
            if prop in m['props']:
                functions_under_contract.append({k: m[k] for k in ('function', 'file', 'first_line', 'last_line', 'sha256_16', 'profile', 'rules')})
        for name, vd in sorted(verd.items()):
            is_extracted = name in extracted
            if is_extracted and prop not in fn_props.get(name, []):
                continue
            if not is_extracted and prop not in lemma_props:
                continue
            failed_here = [f for f in mine if f['function'] == name]
            obligations.append({
                'id': '%s::%s' % (bv['unit'], name), 'function': name, 'unit': bv['unit'],
                'what': 'real function under contract' if is_extracted else 'lemma / spec well-formedness',
                'backend': 'verus/z3', 'kind': 'unbounded', 'time_ms': round((vd['time_us'] or 0) / 1000.0, 1),
                'rlimit': vd['rlimit'],
                # discharged for THIS property: no failing clause of this function is attributed to it
                # (Verus reports every failing clause; clauses it does not report are proved)
                'discharged': not failed_here and (bool(vd['success']) or any(f['function'] == name for f in sem)),
            })
        seen_v = set()
        for f in mine:
            key = (f['function'], f['kind'], f.get('clause_line'))
            if key in seen_v:      # the same clause failing at several exits of one function is one violation
                continue
            seen_v.add(key)
            f = dict(f, unit=bv['unit'])
            e = known(kf, prop, f)
            if e:
                known_hits.append((e, f))
            else:
                violations.append(f)
    tool_problems += unit_errors
    tool_problems += ['undecided (no Verus verdict): ' + x for x in sorted(set(undecided))]
    if prop == 'C11' and not unit_errors:
        tool_problems += c11_shared_contracts(results)
    kani_results = []
    if tier == 'thorough' or violations or tool_problems:
        # thorough: every harness of the property; quick: as triage of a Verus failure (fast harnesses) or, when part of
        # the property got NO Verus verdict (anchor lost, unsupported construct, lost proof hints), as the fallback that
        # can still produce a sound verdict: a counterexample on the real code
        kani_results = K.run_for_property(prop, sc.dir, include_slow=(tier == 'thorough' or (bool(tool_problems) and not violations)), lazy_slow=(tier != 'thorough'))
    kani_failed = [k for k in kani_results if k['status'] == 'failed' and not known(kf, prop, {'function': k['name'], 'clause': k['failed_checks'], 'site': ''})]
    if tool_problems and not violations and not kani_failed:
        for t in tool_problems:
            print('TOOL-LIMIT property=%s %s' % (prop, t[:400]))
        return 2
    for t in tool_problems:
        # a definite violation in one unit stands even if another unit could not be built / decided
        print('NOTE property=%s (no verdict for part of the run) %s' % (prop, t[:300]))
    if not obligations and not kani_failed:
        print('TOOL-LIMIT property=%s no obligations generated (vacuous run)' % prop)
        return 2
    # obligations of functions with a (non-known) failure are undischarged; with only known findings they are listed separately
    for e, f in known_hits:
        print('KNOWN-FINDING: property=%s %s :: %s (%s)' % (prop, f['function'], e.get('what', f['kind']), e.get('id', '')))
    rc = 0
    os.makedirs(os.path.join(VERIF, 'replays'), exist_ok=True)
    for i, f in enumerate(violations):
        path = os.path.join(VERIF, 'replays', '%s_%s_%s_%d.json' % (prop, f['unit'], f['function'], i))
        with open(path, 'w') as fh:
            json.dump({'property': prop, 'obligation': '%s::%s' % (f['unit'], f['function']), 'kind': f['kind'],
                       'clause': f['clause'], 'site': f['site'], 'labels': f['labels'],
                       'verifier_output': f['rendered'], 'failing_input': None,
                       'note': 'Verus gives no counterexample; obligation passed on the unchanged tree and fails now'}, fh, indent=1)
        print('VIOLATION property=%s replay=%s obligation=%s::%s kind="%s" no-failing-input-found' % (prop, path, f['unit'], f['function'], f['kind']))
        rc = 1
    kani_viol = 0
    for kr in kani_results:
        if kr['status'] == 'ok' and kr['kind'] == 'complete':
            obligations.append({'id': 'kani::%s' % kr['name'], 'function': kr['name'], 'unit': 'kani', 'what': kr['what'], 'backend': 'kani/cbmc',
                                'kind': 'complete-loop-free', 'time_ms': (kr.get('cbmc_s') or 0) * 1000, 'rlimit': None, 'discharged': True})
        if kr['status'] == 'failed':
            path = os.path.join(VERIF, 'replays', '%s_kani_%s.json' % (prop, kr['name']))
            with open(path, 'w') as fh:
                json.dump({'property': prop, 'obligation': 'kani::' + kr['name'], 'what': kr['what'], 'kind': kr['kind'], 'failed_checks': kr['failed_checks'],
                           'failing_input_bytes_per_kani_any': kr.get('concrete_vals'), 'native_replay': kr.get('native'), 'cmd': kr['cmd'], 'verifier_output': kr['output_tail']}, fh, indent=1)
            kf_e = known(kf, prop, {'function': kr['name'], 'clause': kr['failed_checks'], 'site': ''})
            if kf_e:
                print('KNOWN-FINDING: property=%s %s :: %s (%s)' % (prop, kr['name'], kf_e.get('what', ''), kf_e.get('id', '')))
            else:
                print('VIOLATION property=%s replay=%s obligation=kani::%s failed="%s" counterexample-replayed-natively' % (prop, path, kr['name'], kr['failed_checks'][:120]))
                rc = 1
                kani_viol += 1
        if kr['status'] in ('timeout', 'error'):
            print('NOTE property=%s kani harness %s: %s (no verdict from this harness)' % (prop, kr['name'], kr['status']))
    n_ob = len(obligations)
    bad_fns = {f['function'] for f in violations} | {f['function'] for _, f in known_hits}
    for o in obligations:
        if o['function'] in bad_fns:
            o['discharged'] = False
    n_dis = sum(1 for o in obligations if o['discharged'])
    write_evidence(prop, pc, tier, seed, results, obligations, n_dis, functions_under_contract, smt_ms, vac, violations, known_hits, time.time() - t0, kani_results, kani_viol)
    print('property=%s tier=%s obligations=%d discharged=%d known-findings=%d violations=%d wall=%.1fs' % (
        prop, tier, n_ob, n_dis, len(known_hits), len(violations) + kani_viol, time.time() - t0))
    return rc


def c11_shared_contracts(results):
    """every function under a shared contract must exist in both flavour units with the same contract file"""
    per = {}
    for bv in results:
        if bv['unit'] not in ('U_unsync', 'U_sync'):
            continue
        per[bv['unit']] = {m['function']: m.get('contract_file') for m in bv['metas'] if m.get('contract_file')}
    if len(per) != 2:
        return ['C11 needs both U_unsync and U_sync']
    a, b = per['U_unsync'], per['U_sync']
    probs = []
    for fn in sorted(set(a) | set(b)):
        if a.get(fn) != b.get(fn):
            probs.append('C11: %s is under contract %s in U_unsync but %s in U_sync' % (fn, a.get(fn), b.get(fn)))
    return probs


def scan_assumptions():
    """mechanical scan for assume/admit/external_body/assume_specification/axiom in shim + spec files"""
    out = []
    d = os.path.join(VERIF, 'units')
    for fn in sorted(os.listdir(d)):
        if not (fn.endswith('.rs') or fn.endswith('.tpl')):
            continue
        txt = open(os.path.join(d, fn)).read().split('\n')
        for i, l in enumerate(txt):
            if re.search(r'\b(assume|admit)\s*\(|external_body|assume_specification|global size_of', l) and not l.strip().startswith('//'):
                nxt = ''
                for k in range(i, min(i + 4, len(txt))):
                    m = re.search(r'fn\s+(\w+)|assume_specification\s*\[([^\]]+)\]', txt[k])
                    if m:
                        nxt = m.group(1) or m.group(2)
                        break
                out.append('%s:%d %s %s' % (fn, i + 1, l.strip()[:60], nxt))
    return out


def write_evidence(prop, pc, tier, seed, results, obligations, n_dis, fuc, smt_ms, vac, violations, known_hits, wall, kani_results=(), kani_viol=0):
    cmds = [bv['verus']['cmd'] for bv in results]
    samples = []
    for bv in results:
        # a few clause lines labelled with this property, written out
        for ln in bv['lines']:
            if ('[' in ln and prop in ln and '//' in ln and V.LABEL_RE.search(ln)):
                samples.append({'unit': bv['unit'], 'clause': ln.strip()[:240]})
                if len(samples) >= 8:
                    break
        if len(samples) >= 8:
            break
    if not samples:
        samples = [{'obligation': o['id']} for o in obligations[:5]]
    ev = {
        'property_id': prop, 'tier': tier, 'seed': seed, 'level': pc.get('level', 'proof'),
        'coverage': {
            'obligations': len(obligations), 'discharged': n_dis,
            'checker_cmd': ' ; '.join(cmds), 'verifier': 'verus ' + V.verus_version() + ' (z3 bundled)',
            'trusted_base': pc.get('trusted_base', []) + ['mechanical scan of units/: ' + x for x in scan_assumptions()],
            'functions_under_contract': fuc,
            'obligation_list': obligations,
            'bounded_checks': [dict(harness=k['name'], bound=k['kind'], what=k['what'], status=k['status'], wall_s=k['wall_s'], backend='kani/cbmc', checks=k.get('checks')) for k in kani_results if k['kind'] != 'complete']
                              or ('(Kani bounded stand-ins run in the thorough tier only: %s)' % ', '.join(sorted(n for n, i in K.harnesses().items() if prop in i['props'] and i['kind'] != 'complete')) if tier == 'quick' else []),
            'kani_complete': [dict(harness=k['name'], what=k['what'], status=k['status'], wall_s=k['wall_s']) for k in kani_results if k['kind'] == 'complete'],
            'solver_time_ms': smt_ms,
            'vacuity': vac,
            'uncovered_clauses': pc.get('uncovered', []),
            'known_findings_reported': [dict(id=e.get('id'), function=f['function'], kind=f['kind']) for e, f in known_hits],
            'samples': samples,
            'explanation': pc.get('explanation') or (pc.get('level_text', '') + ' [' + pc.get('level_note', '') + ']'),
            'units': [bv['unit'] for bv in results],
            'extraction': 'functions re-extracted from /repo working tree this run; rules applied per function are in functions_under_contract[].rules',
        },
        'assumptions': pc.get('assumptions', []),
        'wall_s': round(wall, 2),
        'violations': len(violations) + kani_viol,
    }
    os.makedirs(os.path.join(VERIF, 'evidence'), exist_ok=True)
    with open(os.path.join(VERIF, 'evidence', prop + '.json'), 'w') as fh:
        json.dump(ev, fh, indent=1)
