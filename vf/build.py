"""Build a Verus unit file from a template (/verif/units/*.rs.tpl) and the current /repo sources.

Template directives (everything else is copied through verbatim):

  //@@fn file=<path under rarena-allocator/src> name=<fn> [scope="impl X {"] [nth=N] [xlate=verbatim|unsync|sync|plain]
  //       [st=ref|mut] [props=C01,C03] [rename=<new>] [src=expanded]
  //@attr <line emitted before the fn>
  //@subst /<regex>/ => <replacement>      (leaf-idiom rewrite specific to this fn; must match >= 1 time)
  //@contract                              (lines up to next directive: inserted between signature and body)
  //@loop <k>                              (inserted before '{' of the k-th loop of the body)
  //@before <k> /<regex>/                  (inserted as own lines before k-th body line matching regex)
  //@after <k> /<regex>/                   (inserted after the statement starting on that line)
  //@closure                               (one per closure literal, in order: its `ensures` expression)
  //@@end
"""
import os
import re
import shlex
from . import extract as X
from . import translate as T

# developer override only (tools/unit.py on a stable copy while /repo is busy); registered checks always read /repo
SRC_ROOT = os.environ.get('VERIF_DEV_SRC_ROOT', os.environ.get('VERIF_DEV_REPO', '/repo') + '/rarena-allocator/src/')


class Fn:
    def __init__(self):
        self.attrs = []
        self.substs = []
        self.contract = []
        self.entry = []     # proof lines placed at the very start of the body (can never lose their place)
        self.loops = {}
        self.before = []
        self.after = []
        self.closures = []
        self.opts = {}


def parse_template(tpl):
    """-> list of ('text', str) | ('fn', Fn)"""
    out = []
    lines = tpl.split('\n')
    i = 0
    buf = []
    while i < len(lines):
        l = lines[i]
        if l.startswith('//@@fn') or l.startswith('//@@frag'):
            if buf:
                out.append(('text', '\n'.join(buf)))
                buf = []
            f = Fn()
            f.opts['kind'] = 'frag' if l.startswith('//@@frag') else 'fn'
            for tok in shlex.split(l.split(None, 1)[1] if len(l.split(None, 1)) > 1 else ''):
                k, _, v = tok.partition('=')
                f.opts[k] = v
            cur = None
            i += 1
            while not lines[i].startswith('//@@end'):
                d = lines[i]
                if d.startswith('//@attr '):
                    f.attrs.append(d[len('//@attr '):])
                    cur = None
                elif d.startswith('//@subst ') or d.startswith('//@subst? '):
                    m = re.match(r'//@subst\??\s+/(.*)/ => (.*)$', d)
                    f.substs.append((m.group(1), m.group(2), d.startswith('//@subst?')))
                    cur = None
                elif d.startswith('//@contract'):
                    cur = f.contract
                    mm = re.match(r'//@contract @(\w+)', d)
                    if mm:   # shared contract text (same file for the sync and the unsync flavour)
                        with open(os.path.join(os.path.dirname(os.path.dirname(os.path.abspath(__file__))), 'units', 'contracts', mm.group(1) + '.contract')) as fh:
                            cur.extend(fh.read().rstrip('\n').split('\n'))
                        f.opts['contract_file'] = mm.group(1)
                elif d.startswith('//@loop '):
                    cur = f.loops.setdefault(int(d.split()[1]), [])
                elif d.startswith('//@before ') or d.startswith('//@after '):
                    m = re.match(r'//@(before|after) (\d+) /(.*)/\s*$', d)
                    cur = []
                    (f.before if m.group(1) == 'before' else f.after).append((int(m.group(2)), m.group(3), cur))
                elif d.startswith('//@entry'):
                    cur = f.entry
                elif d.startswith('//@closure'):
                    cur = []
                    f.closures.append(cur)
                elif d.startswith('//@'):
                    raise X.AnchorLost('unknown directive: ' + d)
                else:
                    if cur is None:
                        if d.strip():
                            raise X.AnchorLost('text outside a directive section: ' + d)
                    else:
                        cur.append(d)
                i += 1
            out.append(('fn', f))
            i += 1
            continue
        buf.append(l)
        i += 1
    if buf:
        out.append(('text', '\n'.join(buf)))
    return out


def loop_heads(body):
    """positions of '{' opening each loop body, in document order."""
    mask = X.code_mask(body)
    res = []
    for m in re.finditer(r'\b(loop|while|for)\b', body):
        if not mask[m.start()]:
            continue
        if m.group(1) == 'for' and not re.match(r'for\s+\w+\s+in\b', body[m.start():]):
            continue
        d = 0
        for i, ch in X.scan(body, m.end()):
            if ch in '([':
                d += 1
            elif ch in ')]':
                d -= 1
            elif ch == '{' and d == 0:
                res.append(i)
                break
    return res


def stmt_end_line(lines, idx):
    """index of the line on which the statement starting at lines[idx] ends."""
    text = '\n'.join(lines[idx:])
    d = 0
    for i, ch in X.scan(text):
        if ch in '([{':
            d += 1
        elif ch in ')]}':
            d -= 1
            if d == 0 and ch == '}':
                # block statement (if/match/loop) without trailing ';'
                rest = text[i + 1:].lstrip(' \t')
                if not rest.startswith(';') and not rest.startswith('else') and not rest.startswith('.'):
                    return idx + text[:i].count('\n')
            if d < 0:
                raise X.AnchorLost('statement end not found')
        elif ch == ';' and d == 0:
            return idx + text[:i].count('\n')
    raise X.AnchorLost('statement end not found')


def build_fn(f, sources, fnmeta):
    o = f.opts
    if o.get('kind') == 'frag':
        return build_frag(f, sources, fnmeta)
    path = o['file']
    src = sources(path, o.get('src'))
    text, s, e = X.extract_fn(src, o['name'], o.get('scope'), int(o['nth']) if 'nth' in o else None)
    stripped = X.strip(text)
    if o.get('src') == 'expanded' or o.get('norm'):
        stripped = X.normalize_expanded(stripped)
    ctx = T.Ctx(o['name'], o.get('xlate', 'verbatim'), o.get('st'), fnmeta['callees'])
    ctx.slices = bool(o.get('slices'))
    sig, body = T.translate(stripped, ctx, [' '.join(x.strip() for x in c) for c in f.closures])
    for pat, rep, optional in f.substs:
        body2, n = re.subn(pat, rep, body, flags=re.S)
        if n == 0:
            sig2, n2 = re.subn(pat, rep, sig, flags=re.S)
            if n2 == 0:
                if optional:
                    continue
                raise X.AnchorLost('subst /%s/ does not match in %s' % (pat, o['name']))
            sig = sig2
            ctx.hit('subst', n2)
        else:
            body = body2
            ctx.hit('subst', n)
    if 'rename' in o:
        sig = re.sub(r'\bfn\s+' + re.escape(o['name']) + r'\b', 'fn ' + o['rename'], sig, count=1)
    translated = sig + ' ' + body          # executable text before injection
    # --- injection (never executable) ---
    inj_body = body
    heads = loop_heads(inj_body)
    lost = []
    for k in sorted(f.loops, reverse=True):
        if k > len(heads):
            lost.append('loop %d' % k)
            continue
        p = heads[k - 1]
        inj_body = inj_body[:p] + '\n' + '\n'.join(f.loops[k]) + '\n' + inj_body[p:]
    unused = set(range(1, len(heads) + 1)) - set(f.loops)
    blines = inj_body.split('\n')
    inserts = []  # (line index to insert before, text lines)
    cand = []     # (position, text lines, description)
    lost_txt = []
    for (k, rx, txt) in f.before:
        hits = [i for i, l in enumerate(blines) if re.search(rx, l)]
        if len(hits) < k:
            lost.append('before /%s/ #%d' % (rx, k))
            lost_txt.append(txt)
            continue
        cand.append((hits[k - 1], txt, 'before /%s/ #%d' % (rx, k)))
    for (k, rx, txt) in f.after:
        hits = [i for i, l in enumerate(blines) if re.search(rx, l)]
        if len(hits) < k:
            lost.append('after /%s/ #%d' % (rx, k))
            lost_txt.append(txt)
            continue
        cand.append((stmt_end_line(blines, hits[k - 1]) + 1, txt, 'after /%s/ #%d' % (rx, k)))
    # a lost hint may have declared ghost variables that later hints mention: those go too (the unit must still compile
    # so that the other functions keep their verdicts); the function is then checked without them, a failure is undecided
    gone = set()
    for t in lost_txt:
        gone |= set(re.findall(r'let ghost (?:mut )?(\w+)', '\n'.join(t)))
    changed = bool(gone)
    while changed:
        changed = False
        for c in list(cand):
            body_txt = '\n'.join(c[1])
            if any(re.search(r'\b%s\b' % re.escape(g), body_txt) for g in gone):
                cand.remove(c)
                lost.append(c[2] + ' (uses a ghost variable of a lost hint)')
                new_g = set(re.findall(r'let ghost (?:mut )?(\w+)', body_txt)) - gone
                if new_g:
                    gone |= new_g
                changed = True
    if gone and any(re.search(r'\b%s\b' % re.escape(g), '\n'.join(t)) for g in gone for t in f.loops.values()):
        lost.append('loop invariant uses a ghost variable of a lost hint')
    inserts = [(p, t) for p, t, _ in cand]
    if f.entry:
        # first line of the body is its opening brace
        inserts.append((1, f.entry))
    for pos, txt in sorted(inserts, key=lambda x: -x[0]):
        blines[pos:pos] = txt
    inj_body = '\n'.join(blines)
    contract = merge_extra_requires('\n'.join(f.contract))
    hard = [x for x in lost if x.startswith('loop ')]
    if hard:
        # a loop invariant no longer finds its loop: the function cannot be checked this run (its contract is
        # assumed for the callers) and is reported as undecided; the Kani stage is asked instead
        full = '\n'.join([a for a in f.attrs if 'spinoff' not in a and 'no_decreases' not in a] + ['#[verifier::external_body]', sig + ('\n' + contract if contract.strip() else '') + '\n{ unimplemented!() }'])
    else:
        # lost before/after hints (assertions, lemma calls) are simply left out: if the function still verifies it is
        # proved; if it does not, the failure is 'undecided' (cli.py) because a missing hint may be the only reason
        full = '\n'.join(f.attrs + [sig + ('\n' + contract if contract.strip() else '') + '\n' + inj_body])
    twin = None if hard else make_twin(sig, contract, o.get('rename', o['name']))
    if twin:
        full += '\n' + twin
    meta = {
        'function': o.get('rename', o['name']), 'source_fn': o['name'], 'file': 'rarena-allocator/src/' + path,
        'scope': o.get('scope'), 'first_line': X.line_of(src, s), 'last_line': X.line_of(src, e - 1),
        'sha256_16': X.sha(text), 'profile': ctx.profile, 'rules': ctx.counts,
        'props': [p for p in o.get('props', '').split(',') if p],
        'loops_without_invariant': sorted(unused), 'translated_sha': X.sha(translated),
        'contract_file': o.get('contract_file'),
        # proof hints whose anchor no longer matches are dropped: the function is then checked without them and a
        # failure in it is 'undecided' (never reported as a violation on its own)
        'lost_hints': lost, 'not_checked': bool(hard),
    }
    return full, meta


def merge_extra_requires(contract):
    """lines `requires+ <clauses>` written after a shared contract (//@contract @file) are moved into its requires block"""
    extra = re.findall(r'^\s*requires\+\s+(.*)$', contract, re.M)
    if not extra:
        return contract
    contract = re.sub(r'^\s*requires\+\s+.*\n?', '', contract, flags=re.M)
    m = re.search(r'^(\s*)requires\b', contract, re.M)
    if not m:
        return '  requires\n    ' + '\n    '.join(extra) + '\n' + contract
    return contract[:m.end()] + '\n      ' + '\n      '.join(extra) + '\n     ' + contract[m.end():]


def build_frag(f, sources, fnmeta):
    """A contiguous statement of a function that is otherwise out of reach, wrapped into a fn:
    //@@frag file= [scope=] fn=<enclosing fn> from=/regex/ name=<new fn> params="a: T" ret="T" result="expr" props=..
    The fragment is the statement that starts on the first line matching `from` (to its terminating ';')."""
    o = f.opts
    src = sources(o['file'], o.get('src'))
    text, s, e = X.extract_fn(src, o['fn'], o.get('scope'), int(o['nth']) if 'nth' in o else None)
    stripped = X.strip(text)
    lines = stripped.split('\n')
    rx = o['from'].strip('/')
    hits = [i for i, l in enumerate(lines) if re.search(rx, l)]
    if len(hits) != 1:
        raise X.AnchorLost('frag anchor /%s/ matches %d lines in %s' % (rx, len(hits), o['fn']))
    end = stmt_end_line(lines, hits[0])
    for _ in range(int(o.get('stmts', '1')) - 1):
        nxt = end + 1
        while nxt < len(lines) and not lines[nxt].strip():
            nxt += 1
        end = stmt_end_line(lines, nxt)
    frag = '\n'.join(lines[hits[0]:end + 1])
    ctx = T.Ctx(o['name'], 'plain', None, fnmeta['callees'])
    for pat, rep, optional in f.substs:
        frag, n = re.subn(pat, rep, frag, flags=re.S)
        if n == 0 and not optional:
            raise X.AnchorLost('subst /%s/ does not match in fragment %s' % (pat, o['name']))
        ctx.hit('subst', n)
    sig = 'fn %s(%s) -> (r: %s)' % (o['name'], o.get('params', ''), o['ret'])
    contract = '\n'.join(f.contract)
    full = sig + '\n' + contract + '\n{\n' + frag + '\n    ' + o['result'] + '\n}\n'
    meta = {
        'function': o['name'], 'source_fn': o['fn'] + ' (fragment)', 'file': 'rarena-allocator/src/' + o['file'],
        'scope': o.get('scope'), 'first_line': X.line_of(src, s), 'last_line': X.line_of(src, e - 1),
        'sha256_16': X.sha(frag), 'profile': 'fragment', 'rules': ctx.counts,
        'props': [p for p in o.get('props', '').split(',') if p], 'loops_without_invariant': [],
        'translated_sha': X.sha(frag), 'contract_file': None,
        'note': 'fragment: one statement of %s; the rest of that function is not under contract' % o['fn'],
    }
    return full, meta


def make_twin(sig, contract, name):
    """Vacuity guard: a proof fn with the same parameters and `requires`, claiming `false`.
    Verus must REJECT it; if it verifies, the precondition is contradictory."""
    m = re.search(r'^\s*requires\b(.*?)(?=^\s*ensures\b|\Z)', contract, re.S | re.M)
    if not m:
        return None
    req = m.group(1)
    req = re.sub(r'\*?old\((\w+)\)', lambda mm: ('*' if mm.group(0).startswith('*') else '') + mm.group(1), req)
    head, params, ret, _ = T.split_sig(sig + ' {}')
    head = re.sub(r'\b(pub(\([a-z]+\))?|const|unsafe)\s+', '', head)
    head = re.sub(r'\bfn\s+' + re.escape(name) + r'\b', 'proof fn reach__' + name, head, count=1)
    params = params.replace('&mut self', '&self').replace('&mut St', '&St')
    params = re.sub(r'\bmut\s+(\w+\s*:)', r'\1', params)
    return '%s(%s)\n  requires%s  ensures false\n{}\n' % (head.strip(), params, req.rstrip() + '\n')


def build_unit(tpl_text, sources):
    parts = parse_template(tpl_text)
    callees = {}
    for kind, p in parts:
        if kind == 'fn' and p.opts.get('st') and 'name' in p.opts:
            callees[p.opts['name']] = True
    fnmeta = {'callees': callees}
    out = []
    metas = []
    for kind, p in parts:
        if kind == 'text':
            out.append(p)
        else:
            txt, meta = build_fn(p, sources, fnmeta)
            out.append(txt)
            metas.append(meta)
    return '\n'.join(out), metas


def fn_extents(unit_text):
    """[(name, first_line, last_line)] for every fn item in the generated unit (innermost match wins)."""
    mask = X.code_mask(unit_text)
    res = []
    for m in re.finditer(r'\bfn\s+(\w+)', unit_text):
        if not mask[m.start()]:
            continue
        d = 0
        ob = None
        for i, ch in X.scan(unit_text, m.end()):
            if ch in '([':
                d += 1
            elif ch in ')]':
                d -= 1
            elif ch == '{' and d == 0:
                ob = i
                break
            elif ch == ';' and d == 0:
                break
        if ob is None:
            continue
        try:
            cb = X.match_close(unit_text, ob)
        except X.AnchorLost:
            continue
        res.append((m.group(1), X.line_of(unit_text, m.start()), X.line_of(unit_text, cb)))
    return res
