"""Generators for unit templates that are regular enough to be produced by a loop (macro-generated methods).
They return template text in the same directive language as units/*.rs.tpl."""
import os

UNITS = os.path.join(os.path.dirname(os.path.dirname(os.path.abspath(__file__))), 'units')

INTS = [('u16', 2), ('u32', 4), ('u64', 8), ('usize', 8), ('u128', 16), ('i16', 2), ('i32', 4), ('i64', 8), ('isize', 8), ('i128', 16)]
ORDERS = ['be', 'le', 'ne']

REF_SCOPE = "impl<'a, A: Allocator> BytesRefMut<'a, A> {"
OWN_SCOPE = "impl<A: Allocator> BytesMut<A> {"


def _conv_specs():
    out = []
    for ty, sz in INTS:
        for o in ORDERS:
            out.append('''
pub uninterp spec fn spec_to_%(o)s_%(ty)s(v: %(ty)s) -> Seq<u8>;
pub uninterp spec fn spec_from_%(o)s_%(ty)s(s: Seq<u8>) -> %(ty)s;
#[verifier::external_body]
pub broadcast proof fn axiom_conv_%(o)s_%(ty)s(v: %(ty)s)
  ensures (#[trigger] spec_to_%(o)s_%(ty)s(v)).len() == %(sz)d, spec_from_%(o)s_%(ty)s(spec_to_%(o)s_%(ty)s(v)) == v
{}
#[verifier::external_body]
pub fn to_%(o)s_bytes_%(ty)s(v: %(ty)s) -> (r: [u8; %(sz)d])
  ensures r@ == spec_to_%(o)s_%(ty)s(v)
{ v.to_%(o)s_bytes() }
#[verifier::external_body]
pub fn from_%(o)s_bytes_%(ty)s(s: &[u8]) -> (r: %(ty)s)
  requires s@.len() == %(sz)d, // [C14]
  ensures r == spec_from_%(o)s_%(ty)s(s@)
{ %(ty)s::from_%(o)s_bytes(s.try_into().unwrap()) }
''' % dict(ty=ty, o=o, sz=sz))
    return ''.join(out)


def _fixed_block(scope, sfx, ty, sz, o):
    """put_<ty>_<o>, put_.._unchecked, get_.., get_.._unchecked for one impl (sfx distinguishes the two impls)"""
    d = dict(scope=scope, sfx=sfx, ty=ty, sz=sz, o=o)
    return '''
//@@fn file=bytes.rs src=expanded scope="%(scope)s" name=put_%(ty)s_%(o)s_unchecked rename=put_%(ty)s_%(o)s_unchecked%(sfx)s xlate=plain props=C14
//@subst /let buf = self\\.buffer_mut\\(\\);\\s*buf\\[(.+?)\\.\\.(.+?)\\]\\.copy_from_slice\\(&value\\.to_%(o)s_bytes\\(\\)\\);/ => self.buf_copy_from_slice(\\1, \\2, &to_%(o)s_bytes_%(ty)s(value));
//@contract
  requires old(self).inv(), old(self).len + %(sz)d <= old(self).cap(), // [C14]
  ensures
    final(self).inv() && same_handle(*old(self), *final(self)),
    final(self).len == old(self).len + %(sz)d, // [C14]
    final(self).mem@ == splice(old(self).mem@, old(self).off() + old(self).len as int, spec_to_%(o)s_%(ty)s(value)), // [C14]
//@after 1 /let SIZE: usize/
  proof { broadcast use vstd::layout::layout_of_primitives; broadcast use axiom_conv_%(o)s_%(ty)s; }
//@@end

//@@fn file=bytes.rs src=expanded scope="%(scope)s" name=put_%(ty)s_%(o)s rename=put_%(ty)s_%(o)s%(sfx)s xlate=plain props=C14
//@subst /self\\.put_%(ty)s_%(o)s_unchecked\\(/ => self.put_%(ty)s_%(o)s_unchecked%(sfx)s(
//@subst? /self\\.capacity\\(\\)/ => self.capacity%(sfx)s()
//@contract
  requires old(self).inv(),
  ensures
    r.is_err() <==> old(self).len + %(sz)d > old(self).cap(), // [C14]
    r.is_err() ==> *final(self) == *old(self), // [C14]
    r.is_ok() ==> final(self).inv() && same_handle(*old(self), *final(self)) && final(self).len == old(self).len + %(sz)d
      && final(self).mem@ == splice(old(self).mem@, old(self).off() + old(self).len as int, spec_to_%(o)s_%(ty)s(value)), // [C14]
//@after 1 /let SIZE: usize/
  proof { broadcast use vstd::layout::layout_of_primitives; }
//@@end

//@@fn file=bytes.rs src=expanded scope="%(scope)s" name=get_%(ty)s_%(o)s_unchecked rename=get_%(ty)s_%(o)s_unchecked%(sfx)s xlate=plain props=C14
//@subst /let buf = self\\.buffer\\(\\);\\s*let value = <%(ty)s>::from_(be|le|ne)_bytes\\(buf\\[(.+?)\\.\\.(.+?)\\]\\.try_into\\(\\)\\.unwrap\\(\\)\\);/ => let value = from_\\1_bytes_%(ty)s(self.buf_read(\\2, \\3));
//@contract
  requires old(self).inv(), old(self).len >= %(sz)d, // [C14]
  ensures
    final(self).inv() && same_handle(*old(self), *final(self)) && final(self).mem@ == old(self).mem@,
    final(self).len == old(self).len - %(sz)d, // [C14]
    r == spec_from_%(o)s_%(ty)s(old(self).mem@.subrange(old(self).off() + old(self).len as int - %(sz)d, old(self).off() + old(self).len as int)), // [C14]
//@after 1 /let SIZE: usize/
  proof { broadcast use vstd::layout::layout_of_primitives; }
//@@end

//@@fn file=bytes.rs src=expanded scope="%(scope)s" name=get_%(ty)s_%(o)s rename=get_%(ty)s_%(o)s%(sfx)s xlate=plain props=C14
//@subst /self\\.get_%(ty)s_%(o)s_unchecked\\(/ => self.get_%(ty)s_%(o)s_unchecked%(sfx)s(
//@contract
  requires old(self).inv(),
  ensures
    r.is_err() <==> old(self).len < %(sz)d, // [C14]
    r.is_err() ==> *final(self) == *old(self), // [C14]
    r matches Ok(v) ==> final(self).inv() && same_handle(*old(self), *final(self)) && final(self).mem@ == old(self).mem@ && final(self).len == old(self).len - %(sz)d
      && v == spec_from_%(o)s_%(ty)s(old(self).mem@.subrange(old(self).off() + old(self).len as int - %(sz)d, old(self).off() + old(self).len as int)), // [C14]
//@after 1 /let SIZE: usize/
  proof { broadcast use vstd::layout::layout_of_primitives; }
//@@end
''' % d


def _roundtrip(sfx, ty, sz, o):
    return '''
/// C14: put followed by the get of the same type and byte order returns the value and restores len
fn roundtrip_%(ty)s_%(o)s%(sfx)s(b: &mut Buf, v: %(ty)s)
  requires old(b).inv(),
  ensures final(b).len == old(b).len, // [C14]
{
  let ghost m0 = b.mem@; let ghost at = b.off() + b.len as int;
  match b.put_%(ty)s_%(o)s%(sfx)s(v) {
    Ok(()) => {
      proof {
        broadcast use axiom_conv_%(o)s_%(ty)s;
        lemma_splice_subrange(m0, at, spec_to_%(o)s_%(ty)s(v));
      }
      let r = b.get_%(ty)s_%(o)s%(sfx)s();
      assert(r == Ok::<%(ty)s, IncompleteBuffer>(v)); // [C14]
    }
    Err(_) => {}
  }
}
''' % dict(sfx=sfx, ty=ty, sz=sz, o=o)


ALIGN_BLOCK = '''
//@@fn file=lib.rs name=align_offset props=C14
//@contract
  requires
    layout_ok::<T>(),
    current_offset as int + align_of::<T>() as int <= u32::MAX as int, // [C14]
  ensures
    r as int == align_up(current_offset as int, align_of::<T>() as int),
    r >= current_offset,
    (r as int - current_offset as int) < (align_of::<T>() as int),
    r as int % (align_of::<T>() as int) == 0,
//@before 1 /\\(current_offset \\+ alignment - 1\\)/
  proof {
    let x = current_offset; let a = alignment;
    assert(a != 0 && a & sub(a,1) == 0 && add(x, sub(a,1)) >= x ==>
       ({ let r = add(x, sub(a, 1)) & !sub(a,1); r >= x && sub(r, x) < a && r % a == 0 })) by (bit_vector);
    lemma_align_up_unique(x as int, a as int, (add(x, sub(a, 1)) & !sub(a,1)) as int);
  }
//@@end
'''



VARINTS = [('u16', 3), ('u32', 5), ('u64', 10), ('u128', 19), ('i16', 3), ('i32', 5), ('i64', 10), ('i128', 19)]


def _varint_shims():
    out = []
    for ty, mx in VARINTS:
        out.append('''
/// LEB128 image of a value (const_varint, a dependency: trusted).  Only its length bounds are assumed.
pub uninterp spec fn spec_venc_%(ty)s(v: %(ty)s) -> Seq<u8>;
#[verifier::external_body]
pub broadcast proof fn axiom_venc_len_%(ty)s(v: %(ty)s)
  ensures 1 <= (#[trigger] spec_venc_%(ty)s(v)).len() <= %(mx)d
{}
impl Buf {
  /// `const_varint::encode_%(ty)s_varint_to(value, buf)` with `buf` a window of this handle: writes the image at the start of
  /// the window or fails (window too short); touches nothing outside the window
  #[verifier::external_body]
  pub fn buf_encode_varint_%(ty)s(&mut self, value: %(ty)s, w: Win) -> (r: Result<usize, EncodeErr>)
    requires
      0 <= w.n@, w.n@ > 0 ==> old(self).off() <= w.lo@ && w.lo@ + w.n@ <= old(self).off() + old(self).cap(), // [C14]
      old(self).off() + old(self).cap() <= old(self).mem@.len(),
    ensures
      same_handle(*old(self), *final(self)), final(self).len == old(self).len,
      final(self).only_touched(*old(self), w.lo@ - old(self).off(), w.lo@ + w.n@ - old(self).off()),
      r is Err <==> spec_venc_%(ty)s(value).len() > w.n@,
      r matches Ok(n) ==> n as int == spec_venc_%(ty)s(value).len()
        && final(self).mem@.subrange(w.lo@, w.lo@ + n as int) == spec_venc_%(ty)s(value),
  { unimplemented!() }
}
/// `const_varint::decode_%(ty)s_varint(buf)`: reads only `buf`; inverse of the encoder on every buffer that starts with an image
#[verifier::external_body]
pub fn decode_varint_%(ty)s(buf: &[u8]) -> (r: Result<(usize, %(ty)s), DecodeErr>)
  ensures
    r matches Ok(p) ==> 1 <= p.0 <= buf@.len(),
    forall|v: %(ty)s| (#[trigger] spec_venc_%(ty)s(v)).len() <= buf@.len() && buf@.subrange(0, spec_venc_%(ty)s(v).len() as int) == spec_venc_%(ty)s(v)
      ==> r == Ok::<(usize, %(ty)s), DecodeErr>((spec_venc_%(ty)s(v).len() as usize, v)),
{ unimplemented!() }
''' % dict(ty=ty, mx=mx))
    return ''.join(out)


def _varint_block(scope, sfx, ty):
    d = dict(scope=scope, sfx=sfx, ty=ty, nullreq=('old(self).null_arena ==> old(self).cap() == 0, ' if sfx else ''), nullreq_ro=('self.null_arena ==> self.cap() == 0, ' if sfx else ''))
    return '''
//@@fn file=bytes.rs src=expanded scope="%(scope)s" name=put_%(ty)s_varint rename=put_%(ty)s_varint%(sfx)s xlate=plain props=C14
//@subst /dbutils::error::InsufficientBuffer/ => InsufficientBuffer
//@subst /let buf = unsafe \\{\\s*core::slice::from_raw_parts_mut\\(self\\.as_mut_ptr\\(\\)\\.add\\((.+?)\\), (.+?)\\)\\s*\\}\\s*;/ => let p__ = self.as_mut_ptr%(sfx)s(); let buf = self.win_from_raw_parts(p__.add(\\1), \\2);
//@subst /dbutils::leb128::encode_%(ty)s_varint_to\\(value, buf\\)/ => self.buf_encode_varint_%(ty)s(value, buf)
//@subst? /self\\.capacity\\(\\)/ => self.capacity%(sfx)s()
//@contract
  requires old(self).inv(), %(nullreq)s
  ensures
    same_handle(*old(self), *final(self)) && final(self).inv(), // [C14]
    final(self).only_touched(*old(self), old(self).len as int, old(self).cap()), // [C14]
    r is Err <==> spec_venc_%(ty)s(value).len() > old(self).cap() - old(self).len, // [C14]
    r is Err ==> final(self).len == old(self).len, // [C14]
    r matches Ok(n) ==> n as int == spec_venc_%(ty)s(value).len() && final(self).len == old(self).len + n
      && final(self).mem@.subrange(old(self).off() + old(self).len as int, old(self).off() + old(self).len as int + n as int) == spec_venc_%(ty)s(value), // [C14]
//@before 1 /let p__ = /
  proof { broadcast use axiom_venc_len_%(ty)s; }
//@@end
//@@fn file=bytes.rs src=expanded scope="%(scope)s" name=put_%(ty)s_varint_unchecked rename=put_%(ty)s_varint_unchecked%(sfx)s xlate=plain props=C14
//@subst? /let buf = unsafe \\{\\s*core::slice::from_raw_parts_mut\\(self\\.as_mut_ptr\\(\\)\\.add\\((.+?)\\), (.+?)\\)\\s*\\}\\s*;/ => let p__ = self.as_mut_ptr%(sfx)s(); let buf = self.win_from_raw_parts(p__.add(\\1), \\2);
//@subst? /let buf = self\\.buffer_mut%(sfx)s\\(\\);/ => let buf = self.win_whole();
//@subst? /let buf = self\\.buffer_mut\\(\\);/ => let buf = self.win_whole();
//@subst /dbutils::leb128::encode_%(ty)s_varint_to\\(value, buf\\)/ => self.buf_encode_varint_%(ty)s(value, buf)
//@subst? /(self\\.buf_encode_varint_%(ty)s\\(value, buf\\))\\.unwrap\\(\\)/ => match \\1 { Ok(v__) => v__, Err(_) => rt_panic_documented_val() }
//@subst? /self\\.capacity\\(\\)/ => self.capacity%(sfx)s()
//@contract
  requires old(self).inv(), %(nullreq)s
  ensures
    spec_venc_%(ty)s(value).len() <= old(self).cap() - old(self).len, // [C14] documented panic otherwise: nothing is written past the buffer
    same_handle(*old(self), *final(self)) && final(self).inv(), // [C14]
    final(self).only_touched(*old(self), old(self).len as int, old(self).cap()), // [C14]
    r as int == spec_venc_%(ty)s(value).len() && final(self).len == old(self).len + r
      && final(self).mem@.subrange(old(self).off() + old(self).len as int, old(self).off() + old(self).len as int + r as int) == spec_venc_%(ty)s(value), // [C14]
//@before 1 /let buf = /
  proof { broadcast use axiom_venc_len_%(ty)s; }
//@@end
//@@fn file=bytes.rs src=expanded scope="%(scope)s" name=get_%(ty)s_varint rename=get_%(ty)s_varint%(sfx)s xlate=plain props=C14
//@subst /dbutils::leb128::DecodeVarintError/ => DecodeErr
//@subst /dbutils::leb128::decode_%(ty)s_varint\\(self\\)/ => decode_varint_%(ty)s(self.deref%(sfx)s())
//@contract
  requires self.inv(), %(nullreq_ro)s
  ensures
    r matches Ok(p) ==> 1 <= p.0 <= self.len, // [C14]
    forall|v: %(ty)s| (#[trigger] spec_venc_%(ty)s(v)).len() <= self.len && self.mem@.subrange(self.off(), self.off() + spec_venc_%(ty)s(v).len()) == spec_venc_%(ty)s(v)
      ==> r == Ok::<(usize, %(ty)s), DecodeErr>((spec_venc_%(ty)s(v).len() as usize, v)), // [C14]
//@before 1 /decode_varint_/
  proof {
    broadcast use axiom_venc_len_%(ty)s;
    assert forall|v: %(ty)s| (#[trigger] spec_venc_%(ty)s(v)).len() <= self.len && self.mem@.subrange(self.off(), self.off() + spec_venc_%(ty)s(v).len()) == spec_venc_%(ty)s(v)
      implies self.mem@.subrange(self.off(), self.off() + self.len as int).subrange(0, spec_venc_%(ty)s(v).len() as int) == spec_venc_%(ty)s(v) by {
      assert(self.mem@.subrange(self.off(), self.off() + self.len as int).subrange(0, spec_venc_%(ty)s(v).len() as int) =~= self.mem@.subrange(self.off(), self.off() + spec_venc_%(ty)s(v).len()));
    }
  }
//@@end
//@@fn file=bytes.rs src=expanded scope="%(scope)s" name=get_%(ty)s_varint_unchecked rename=get_%(ty)s_varint_unchecked%(sfx)s xlate=plain props=C14
//@subst /dbutils::leb128::decode_%(ty)s_varint\\(self\\)/ => decode_varint_%(ty)s(self.deref%(sfx)s())
//@contract
  requires old(self).inv(), %(nullreq)s
  ensures
    *final(self) == *old(self), // [C14]
    1 <= r.0 <= old(self).len, // [C14] documented panic otherwise: nothing past `len` is consumed
    forall|v: %(ty)s| (#[trigger] spec_venc_%(ty)s(v)).len() <= old(self).len && old(self).mem@.subrange(old(self).off(), old(self).off() + spec_venc_%(ty)s(v).len()) == spec_venc_%(ty)s(v)
      ==> r == (spec_venc_%(ty)s(v).len() as usize, v), // [C14]
//@before 1 /decode_varint_/
  proof {
    broadcast use axiom_venc_len_%(ty)s;
    assert forall|v: %(ty)s| (#[trigger] spec_venc_%(ty)s(v)).len() <= self.len && self.mem@.subrange(self.off(), self.off() + spec_venc_%(ty)s(v).len()) == spec_venc_%(ty)s(v)
      implies self.mem@.subrange(self.off(), self.off() + self.len as int).subrange(0, spec_venc_%(ty)s(v).len() as int) == spec_venc_%(ty)s(v) by {
      assert(self.mem@.subrange(self.off(), self.off() + self.len as int).subrange(0, spec_venc_%(ty)s(v).len() as int) =~= self.mem@.subrange(self.off(), self.off() + spec_venc_%(ty)s(v).len()));
    }
  }
//@@end
''' % d


def _varint_roundtrip(sfx, ty):
    return '''
/// C14: a LEB128 put on an empty buffer followed by the matching varint get returns the encoded length and the value
fn roundtrip_varint_%(ty)s%(sfx)s(b: &mut Buf, v: %(ty)s)
  requires old(b).inv(), old(b).len == 0, old(b).null_arena ==> old(b).cap() == 0,
{
  match b.put_%(ty)s_varint%(sfx)s(v) {
    Ok(n) => {
      let r = b.get_%(ty)s_varint%(sfx)s();
      assert(r == Ok::<(usize, %(ty)s), DecodeErr>((n, v))); // [C14]
    }
    Err(_) => {}
  }
}
''' % dict(sfx=sfx, ty=ty)


def _write_fixed_block(scope, sfx, ty, sz, o):
    """write_<ty>_<o>: the std::io flavoured wrapper of put_<ty>_<o> (rule R24)"""
    return '''
//@@fn file=bytes.rs src=expanded scope="%(scope)s" name=write_%(ty)s_%(o)s rename=write_%(ty)s_%(o)s%(sfx)s xlate=plain props=C14
//@subst /self\\.put_%(ty)s_%(o)s\\(/ => self.put_%(ty)s_%(o)s%(sfx)s(
//@contract
  requires old(self).inv(),
  ensures
    r.is_err() <==> old(self).len + %(sz)d > old(self).cap(), // [C14]
    r.is_err() ==> *final(self) == *old(self), // [C14]
    r.is_ok() ==> final(self).inv() && same_handle(*old(self), *final(self)) && final(self).len == old(self).len + %(sz)d
      && final(self).mem@ == splice(old(self).mem@, old(self).off() + old(self).len as int, spec_to_%(o)s_%(ty)s(value)), // [C14]
//@@end
''' % dict(scope=scope, sfx=sfx, ty=ty, sz=sz, o=o)


def _write_varint_block(scope, sfx, ty):
    d = dict(scope=scope, sfx=sfx, ty=ty, nullreq=('old(self).null_arena ==> old(self).cap() == 0, ' if sfx else ''))
    return '''
//@@fn file=bytes.rs src=expanded scope="%(scope)s" name=write_%(ty)s_varint rename=write_%(ty)s_varint%(sfx)s xlate=plain props=C14
//@subst /self\\.put_%(ty)s_varint\\(/ => self.put_%(ty)s_varint%(sfx)s(
//@contract
  requires old(self).inv(), %(nullreq)s
  ensures
    same_handle(*old(self), *final(self)) && final(self).inv(), // [C14]
    final(self).only_touched(*old(self), old(self).len as int, old(self).cap()), // [C14]
    r is Err <==> spec_venc_%(ty)s(value).len() > old(self).cap() - old(self).len, // [C14]
    r is Err ==> final(self).len == old(self).len, // [C14]
    r matches Ok(n) ==> n as int == spec_venc_%(ty)s(value).len() && final(self).len == old(self).len + n
      && final(self).mem@.subrange(old(self).off() + old(self).len as int, old(self).off() + old(self).len as int + n as int) == spec_venc_%(ty)s(value), // [C14]
//@@end
''' % d


def handles():
    with open(os.path.join(UNITS, 'U_handles.head.rs')) as f:
        head = f.read()
    with open(os.path.join(UNITS, 'U_handles.fns.tpl')) as f:
        fns = f.read()
    parts = [head, _conv_specs(), _varint_shims(), ALIGN_BLOCK, '\nimpl Buf {\n']
    rts = []
    for scope, sfx in ((REF_SCOPE, ''), (OWN_SCOPE, '__own')):
        for ty, sz in INTS:
            for o in ORDERS:
                parts.append(_fixed_block(scope, sfx, ty, sz, o))
                parts.append(_write_fixed_block(scope, sfx, ty, sz, o))
                rts.append(_roundtrip(sfx, ty, sz, o))
        for ty, _mx in VARINTS:
            parts.append(_varint_block(scope, sfx, ty))
            parts.append(_write_varint_block(scope, sfx, ty))
            rts.append(_varint_roundtrip(sfx, ty))
        bufscope = "impl<A: Allocator> crate::Buffer for BytesRefMut<'_, A> {" if sfx == '' else 'impl<A: Allocator> crate::Buffer for BytesMut<A> {'
        wrscope = "impl<A: crate::Allocator> std::io::Write for BytesRefMut<'_, A> {" if sfx == '' else 'impl<A: crate::Allocator> std::io::Write for BytesMut<A> {'
        parts.append(fns.replace('%WRSCOPE%', wrscope).replace('%SCOPE%', scope).replace('%BUFSCOPE%', bufscope).replace('%SFX%', sfx))
    parts.append('\n} // impl Buf\n')
    parts.extend(rts)
    with open(os.path.join(UNITS, 'U_handles.window.tpl')) as f:
        parts.append(f.read())
    with open(os.path.join(UNITS, 'U_handles.tail.tpl')) as f:
        parts.append(f.read())
    parts.append('\n} // verus!\nfn main() {}\n')
    return ''.join(parts)


# ---------------------------------------------------------------------------------------------------------------
# U_readers: Allocator trait default methods (arena-level readers, slice constructors, checksum)
# ---------------------------------------------------------------------------------------------------------------
RD_INTS = [('u16', 2), ('u32', 4), ('u64', 8), ('u128', 16), ('i16', 2), ('i32', 4), ('i64', 8), ('i128', 16)]
RD_VARINT = [('i16', 3), ('i32', 5), ('i64', 10), ('i128', 19), ('u16', 3), ('u32', 5), ('u64', 10), ('u128', 19)]
TRAIT_SCOPE = 'pub trait Allocator: sealed::Sealed {'


def readers():
    with open(os.path.join(UNITS, 'U_readers.head.rs')) as f:
        parts = [f.read()]
    for ty, sz in RD_INTS:
        for o in ('be', 'le'):
            parts.append('''
pub uninterp spec fn spec_from_%(o)s_%(ty)s(s: Seq<u8>) -> %(ty)s;
#[verifier::external_body]
pub fn from_%(o)s_bytes_%(ty)s(s: &[u8]) -> (r: %(ty)s)
  requires s@.len() == %(sz)d, // [C15]
  ensures r == spec_from_%(o)s_%(ty)s(s@)
{ %(ty)s::from_%(o)s_bytes(s.try_into().unwrap()) }
''' % dict(ty=ty, sz=sz, o=o))
    for ty, n in RD_VARINT:
        parts.append('''
/// dbutils::leb128::decode_%(ty)s_varint (dependency, trusted): looks at nothing but `buf`
#[verifier::external_body]
pub fn decode_varint_%(ty)s(buf: &[u8]) -> (r: Result<(usize, %(ty)s), Error>)
  ensures r matches Ok(p) ==> 1 <= p.0 <= buf@.len() && p.1 == spec_varint_%(ty)s(buf@.subrange(0, p.0 as int)),
{ unimplemented!() }
pub uninterp spec fn spec_varint_%(ty)s(s: Seq<u8>) -> %(ty)s;
''' % dict(ty=ty))
    parts.append('\nimpl Rd {\n')
    for ty, sz in RD_INTS:
        for o in ('be', 'le'):
            parts.append('''
//@@fn file=allocator.rs src=expanded scope="%(scope)s" name=get_%(ty)s_%(o)s xlate=plain props=C15
//@subst /let buf = unsafe \\{\\s*let ptr = self\\.raw_ptr\\(\\)\\.add\\((.+?)\\);\\s*core::slice::from_raw_parts\\(ptr, (.+?)\\)\\s*\\}\\s*;/ => let buf = self.mem_read(\\1, \\2);
//@subst /%(ty)s::from_(be|le)_bytes\\(buf\\.try_into\\(\\)\\.unwrap\\(\\)\\)/ => from_\\1_bytes_%(ty)s(buf)
//@contract
  requires self.inv(),
  ensures
    r.is_err() <==> offset as int + %(sz)d > self.allocated as int, // [C15]
    r matches Err(e) ==> e matches Error::OutOfBounds { .. }, // [C15]
    r matches Ok(v) ==> v == spec_from_%(o)s_%(ty)s(self.mem@.subrange(offset as int, offset as int + %(sz)d)), // [C15]
//@after 1 /let SIZE: usize/
    proof { broadcast use vstd::layout::layout_of_primitives; }
//@@end
//@@fn file=allocator.rs src=expanded scope="%(scope)s" name=get_%(ty)s_%(o)s_unchecked xlate=plain props=C15
//@subst /let buf = unsafe \\{\\s*let ptr = self\\.raw_ptr\\(\\)\\.add\\((.+?)\\);\\s*core::slice::from_raw_parts\\(ptr, (.+?)\\)\\s*\\}\\s*;/ => let buf = self.mem_read(\\1, \\2);
//@subst /%(ty)s::from_(be|le)_bytes\\(buf\\.try_into\\(\\)\\.unwrap\\(\\)\\)/ => from_\\1_bytes_%(ty)s(buf)
//@contract
  requires self.inv(), offset as int + %(sz)d <= self.allocated as int, // the caller's safety obligation
  ensures
    r == spec_from_%(o)s_%(ty)s(self.mem@.subrange(offset as int, offset as int + %(sz)d)), // [C15]
//@after 1 /let SIZE: usize/
    proof { broadcast use vstd::layout::layout_of_primitives; }
//@@end
''' % dict(scope=TRAIT_SCOPE, ty=ty, sz=sz, o=o))
    for ty, n in RD_VARINT:
        parts.append('''
//@@fn file=allocator.rs src=expanded scope="%(scope)s" name=get_%(ty)s_varint xlate=plain slices=1 props=C15
//@subst? /let buf = unsafe \\{\\s*let ptr = self\\.get_pointer\\((.+?)\\);\\s*let gap = (.+?);\\s*core::slice::from_raw_parts\\(ptr, gap\\)\\s*\\}\\s*;/ => let gap = \\2; let buf = self.mem_read(\\1, gap);
//@subst /dbutils::leb128::decode_%(ty)s_varint\\(buf\\)\\.map_err\\(Into::into\\)/ => decode_varint_%(ty)s(buf)
//@contract
  requires self.inv(),
  ensures
    offset >= self.allocated ==> r matches Err(Error::OutOfBounds { .. }), // [C15]
    r matches Ok(p) ==> offset as int + p.0 as int <= self.allocated as int && p.0 <= %(n)d
      && p.1 == spec_varint_%(ty)s(self.mem@.subrange(offset as int, offset as int + min_int(self.allocated as int - offset as int, %(n)d)).subrange(0, p.0 as int)), // [C15]
//@@end
''' % dict(scope=TRAIT_SCOPE, ty=ty, n=n))
    with open(os.path.join(UNITS, 'U_readers.fns.tpl')) as f:
        parts.append(f.read().replace('%SCOPE%', TRAIT_SCOPE))
    parts.append('\n} // impl Rd\n\n} // verus!\nfn main() {}\n')
    return ''.join(parts)
