// Kani harnesses injected as a child module of sync.rs (scratch copy).  Single-threaded: Kani has no threads.
use super::*;
use crate::{unsync, Allocator, ArenaPosition, Buffer, Freelist, Options};

fn any_freelist() -> Freelist {
  let k: u8 = kani::any();
  kani::assume(k <= 2);
  match k { 0 => Freelist::None, 1 => Freelist::Optimistic, _ => Freelist::Pessimistic }
}

/// complete over ArenaPosition for a 128-byte sync arena with a symbolic cursor: C17
#[kani::proof]
#[kani::unwind(4)]
fn k_sync_rewind_clamps() {
  let a = Options::new().with_capacity(128).with_freelist(Freelist::None).alloc::<Arena>().unwrap();
  let n: u32 = kani::any();
  kani::assume(n <= 100);
  if let Ok(mut b) = a.alloc_bytes(n) { unsafe { b.detach(); } }
  let cur = a.allocated() as i128;
  let pos = match kani::any::<u8>() % 3 {
    0 => ArenaPosition::Start(kani::any()),
    1 => ArenaPosition::End(kani::any()),
    _ => ArenaPosition::Current(kani::any()),
  };
  let want = match pos {
    ArenaPosition::Start(x) => x as i128,
    ArenaPosition::End(x) => 128 - x as i128,
    ArenaPosition::Current(d) => cur + d as i128,
  };
  let lo = a.data_offset() as i128;
  let want = if want < lo { lo } else if want > 128 { 128 } else { want };
  unsafe { a.rewind(pos) };
  assert!(a.allocated() as i128 == want);
}

/// complete (loop-free): C11/C10 validate_segment of both flavours agree with each other for every (offset, size, min)
#[kani::proof]
#[kani::unwind(4)]
fn k_validate_segment_same_in_both_flavours() {
  let s = Options::new().with_capacity(64).alloc::<Arena>().unwrap();
  let u = Options::new().with_capacity(64).alloc::<unsync::Arena>().unwrap();
  let min: u32 = kani::any();
  s.set_minimum_segment_size(min);
  u.set_minimum_segment_size(min);
  let offset: u32 = kani::any();
  let size: u32 = kani::any();
  kani::assume(offset <= u32::MAX - 8);
  assert!(s.validate_segment(offset, size) == unsync::verif_kani_unsync::validate_segment_of(&u, offset, size));
}

/// bounded(capacity 64, 2 allocations + release + allocation, sizes <= 24, Freelist::None - with a free list the two
/// list walks made CBMC run out of memory): C11 differential
fn diff(fl: Freelist) {
  let s = Options::new().with_capacity(64).with_freelist(fl).alloc::<Arena>().unwrap();
  let u = Options::new().with_capacity(64).with_freelist(fl).alloc::<unsync::Arena>().unwrap();
  s.set_minimum_segment_size(1);
  u.set_minimum_segment_size(1);
  let (n1, n2, n3): (u32, u32, u32) = (kani::any(), kani::any(), kani::any());
  kani::assume(n1 >= 9 && n1 <= 24 && n2 >= 1 && n2 <= 24 && n3 <= 24);
  let (sx, ux) = (s.alloc_bytes(n1), u.alloc_bytes(n1));
  assert!(sx.is_ok() == ux.is_ok());
  let (Ok(sx), Ok(ux)) = (sx, ux) else { return; };
  assert!(sx.offset() == ux.offset() && sx.capacity() == ux.capacity() && sx.buffer_offset() == ux.buffer_offset() && sx.buffer_capacity() == ux.buffer_capacity());
  let (sy, uy) = (s.alloc_bytes(n2), u.alloc_bytes(n2));
  assert!(sy.is_ok() == uy.is_ok());
  let (Ok(mut sy), Ok(mut uy)) = (sy, uy) else { return; };
  unsafe { sy.detach(); uy.detach(); }
  drop(sx); drop(ux);
  assert!(s.allocated() == u.allocated() && s.discarded() == u.discarded() && s.remaining() == u.remaining());
  let (sz, uz) = (s.alloc_bytes(n3), u.alloc_bytes(n3));
  assert!(sz.is_ok() == uz.is_ok());
  if let (Ok(sz), Ok(uz)) = (&sz, &uz) {
    assert!(sz.offset() == uz.offset() && sz.capacity() == uz.capacity() && sz.buffer_offset() == uz.buffer_offset() && sz.buffer_capacity() == uz.buffer_capacity());
  }
  assert!(s.allocated() == u.allocated() && s.discarded() == u.discarded());
}
#[kani::proof]
#[kani::unwind(4)]
fn k_diff_none() { diff(Freelist::None) }

/// bounded(one clone, one owned buffer, all drop orders by a symbolic choice): C13 refs() counts live arena values
#[kani::proof]
#[kani::unwind(5)]
fn k_refs_counts_live_arenas() {
  let a = Options::new().with_capacity(64).alloc::<Arena>().unwrap();
  assert!(a.refs() == 1);
  let b = a.clone();
  assert!(a.refs() == 2);
  let o = a.alloc_bytes_owned(8).unwrap();
  assert!(a.refs() == 3);
  if kani::any() {
    drop(b);
    assert!(a.refs() == 2);
    drop(o);
    assert!(a.refs() == 1);
  } else {
    drop(o);
    assert!(a.refs() == 2);
    drop(a);
    assert!(b.refs() == 1);
  }
}

/// bounded(capacity 96, Freelist::None; a buffer of 1..=24 bytes is dirtied at a symbolic index and then given up either by
/// rewind (detached) or by drop (dealloc on top); the next alloc_bytes of 1..=32 bytes must read zero at every index): C08
#[kani::proof]
#[kani::unwind(4)]
fn k_sync_zero_after_rewind_or_release() {
  let a = Options::new().with_capacity(96).with_freelist(Freelist::None).alloc::<Arena>().unwrap();
  let mark = a.allocated() as u32;
  let (n1, n2): (u32, u32) = (kani::any(), kani::any());
  kani::assume(n1 >= 1 && n1 <= 24 && n2 >= 1 && n2 <= 32);
  let Ok(mut b) = a.alloc_bytes(n1) else { return; };
  let off = b.offset();
  let i: usize = kani::any();
  kani::assume(i < n1 as usize);
  unsafe { *a.get_pointer_mut(off).add(i) = 0xAA; }
  if kani::any() {
    unsafe { b.detach(); }
    drop(b);
    unsafe { a.rewind(ArenaPosition::Start(mark)) };
  } else {
    drop(b);
  }
  assert!(a.allocated() as u32 == mark);
  let Ok(z) = a.alloc_bytes(n2) else { return; };
  assert!(z.offset() == off && z.capacity() == n2 as usize);
  let j: usize = kani::any();
  kani::assume(j < n2 as usize);
  assert!(unsafe { a.get_bytes(z.offset(), z.capacity()) }[j] == 0);
}

/// sync flavour, one thread.  bounded(capacity 64, maximum_retries 1: a dirtied 24-byte block and a live 8-byte neighbour, fresh
/// space exhausted, the block released below the top, then a symbolic request of 0..=20 bytes that can only come from the free
/// list): the recycled range is zero, inside the arena and disjoint from the neighbour, which keeps its bytes; C08/C01
fn sync_release_reuse(fl: Freelist) {
  let a = Options::new().with_capacity(64).with_freelist(fl).with_maximum_retries(1).alloc::<Arena>().unwrap();
  a.set_minimum_segment_size(1);
  let n3: u32 = kani::any();
  kani::assume(n3 <= 20);
  let Ok(mut x) = a.alloc_bytes(24) else { return; };
  unsafe { core::ptr::write_bytes(x.as_mut_ptr(), 0xAA, 24) };
  let Ok(mut y) = a.alloc_bytes(8) else { return; };
  unsafe { core::ptr::write_bytes(y.as_mut_ptr(), 0xBB, 8) };
  let (yo, yc) = (y.offset(), y.capacity());
  let rem = a.remaining() as u32;
  if rem > 0 { let Ok(mut f) = a.alloc_bytes(rem) else { return; }; unsafe { f.detach(); } }
  drop(x);
  match a.alloc_bytes(n3) {
    Ok(z) => {
      assert!(z.capacity() == n3 as usize);
      if n3 > 0 {
        assert!(z.offset() >= a.data_offset() && z.offset() + z.capacity() <= a.allocated());
        assert!(z.offset() + z.capacity() <= yo || yo + yc <= z.offset());
        let bytes = unsafe { a.get_bytes(z.offset(), z.capacity()) };
        let i: usize = kani::any();
        kani::assume(i < bytes.len());
        assert!(bytes[i] == 0);
      }
    }
    Err(_) => {}
  }
  let j: usize = kani::any();
  kani::assume(j < yc);
  assert!(unsafe { a.get_bytes(yo, yc) }[j] == 0xBB);
}
#[kani::proof]
#[kani::unwind(4)]
fn k_sync_release_reuse_pessimistic() { sync_release_reuse(Freelist::Pessimistic) }
#[kani::proof]
#[kani::unwind(4)]
fn k_sync_release_reuse_optimistic() { sync_release_reuse(Freelist::Optimistic) }
