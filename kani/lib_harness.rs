// Kani harnesses injected (by vf/kani.py) as a child module of rarena-allocator's lib.rs in a SCRATCH COPY of /repo.
// They run on the real compiled code.  `complete` = loop-free / fully unwound over the full input domain;
// `bounded(<bound>)` = stand-in with a stated bound, never counted as proved.
use super::*;

macro_rules! align_offset_harness {
  ($name:ident, $ty:ty) => {
    /// complete: C03 align_offset::<T> over the whole u32 domain (minus the last align bytes: documented precondition)
    #[kani::proof]
    fn $name() {
      let x: u32 = kani::any();
      let a = core::mem::align_of::<$ty>() as u32;
      kani::assume(x <= u32::MAX - a);
      let r = align_offset::<$ty>(x);
      assert!(r >= x && r - x < a && r % a == 0);
    }
  };
}
align_offset_harness!(k_align_offset_u8, u8);
align_offset_harness!(k_align_offset_u16, u16);
align_offset_harness!(k_align_offset_u32, u32);
align_offset_harness!(k_align_offset_u64, u64);
align_offset_harness!(k_align_offset_u128, u128);

/// complete: C10 node word codec is a bijection on (size, next)
#[kani::proof]
fn k_encode_decode() {
  let s: u32 = kani::any();
  let n: u32 = kani::any();
  assert!(decode_segment_node(encode_segment_node(s, n)) == (s, n));
  let w: u64 = kani::any();
  let (a, b) = decode_segment_node(w);
  assert!(encode_segment_node(a, b) == w);
}

/// complete: C09 sanity_check accepts exactly what write_sanity wrote: any change of identification bytes 1..8, of the
/// expected freelist kind or of the expected magic version is rejected (byte 0 is not validated)
#[cfg(all(feature = "memmap", not(target_family = "wasm")))]
#[kani::proof]
#[kani::unwind(9)]
fn k_sanity_check_exact() {
  let mut data: [u8; 8] = kani::any();
  let mv: u16 = kani::any();
  let fl: u8 = kani::any();
  kani::assume(fl <= 2);
  write_sanity(fl, mv, &mut data);
  let want = Freelist::try_from(fl).unwrap();
  assert!(matches!(sanity_check(Some(want), mv, &data), Ok(f) if f == want));
  assert!(matches!(sanity_check(None, mv, &data), Ok(f) if f == want));
  // a different expectation is refused
  let mv2: u16 = kani::any();
  if mv2 != mv { assert!(sanity_check(Some(want), mv2, &data).is_err()); }
  let fl2: u8 = kani::any();
  kani::assume(fl2 <= 2);
  if fl2 != fl { assert!(sanity_check(Some(Freelist::try_from(fl2).unwrap()), mv, &data).is_err()); }
  // any single-byte change of bytes 1..8 is refused
  let idx: usize = kani::any();
  kani::assume(idx >= 1 && idx < 8);
  let b: u8 = kani::any();
  kani::assume(b != data[idx]);
  data[idx] = b;
  let r = sanity_check(Some(want), mv, &data);
  assert!(r.is_err());
}
