// Kani harnesses injected as a child module of unsync.rs (scratch copy): can call the private functions of unsync::Arena.
use super::*;
use crate::{Allocator, ArenaPosition, Buffer, Freelist, Options};

fn arena(cap: u32, fl: Freelist) -> Arena {
  Options::new().with_capacity(cap).with_freelist(fl).alloc::<Arena>().unwrap()
}
fn any_freelist() -> Freelist {
  let k: u8 = kani::any();
  kani::assume(k <= 2);
  match k { 0 => Freelist::None, 1 => Freelist::Optimistic, _ => Freelist::Pessimistic }
}

/// complete over ArenaPosition (all variants, full u32 / i64 domain) for a 128-byte arena with a symbolic cursor: C17
#[kani::proof]
#[kani::unwind(4)]
fn k_rewind_clamps() {
  let a = arena(128, Freelist::None);
  let n: u32 = kani::any();
  kani::assume(n <= 100);
  if let Ok(mut b) = a.alloc_bytes(n) { unsafe { b.detach(); } }
  let cur = a.allocated() as i128;
  let (disc, minseg) = (a.discarded(), a.minimum_segment_size());
  let pos = match kani::any::<u8>() % 3 {
    0 => ArenaPosition::Start(kani::any()),
    1 => ArenaPosition::End(kani::any()),
    _ => ArenaPosition::Current(kani::any()),
  };
  let want = match pos {
    ArenaPosition::Start(x) => x as i128,
    ArenaPosition::End(x) => 128 - x as i128,
    ArenaPosition::Current(d) => cur + d as i128,
  };
  let lo = a.data_offset() as i128;
  let want = if want < lo { lo } else if want > 128 { 128 } else { want };
  unsafe { a.rewind(pos) };
  assert!(a.allocated() as i128 == want);
  assert!(a.discarded() == disc && a.minimum_segment_size() == minseg);
}

/// complete (loop-free, full u32 domain minus the documented overflow margin): C10/C20 validate_segment and
/// try_new_segment agree, the node lies inside the released range, accounting is exact
#[kani::proof]
#[kani::unwind(4)]
fn k_validate_and_try_new_agree() {
  let a = arena(64, Freelist::Pessimistic);
  let min: u32 = kani::any();
  a.set_minimum_segment_size(min);
  let offset: u32 = kani::any();
  let size: u32 = kani::any();
  kani::assume(offset <= u32::MAX - 8 && (offset as u64 + size as u64) <= u32::MAX as u64);
  let before = a.discarded();
  kani::assume(before as u64 + size as u64 <= u32::MAX as u64);
  let v = a.validate_segment(offset, size);
  let s = a.try_new_segment(offset, size);
  assert!(v == s.is_some());
  match s {
    Some(seg) => {
      assert!(seg.ptr_offset % 8 == 0 && seg.ptr_offset >= offset && seg.ptr_offset - offset < 8);
      assert!(seg.data_offset == seg.ptr_offset + 8);
      assert!(seg.data_offset as u64 + seg.data_size as u64 == offset as u64 + size as u64);
      assert!(seg.data_size >= min && seg.data_size >= 1);
      assert!(a.discarded() == before);
    }
    None => {
      if offset == 0 || size == 0 { assert!(a.discarded() == before); } else { assert!(a.discarded() == before + size); }
    }
  }
}

fn alloc_release_reuse(fl: Freelist) {
  // maximum_retries 1: the retry loop around the slow path adds nothing on one thread and multiplies CBMC's work
  let a = Options::new().with_capacity(64).with_freelist(fl).with_maximum_retries(1).alloc::<Arena>().unwrap();
  a.set_minimum_segment_size(1);
  let (n1, n3): (u32, u32) = (kani::any(), kani::any());
  kani::assume(n1 >= 16 && n1 <= 32 && n3 <= 20);
  let Ok(mut x) = a.alloc_bytes(n1) else { return; };
  unsafe { core::ptr::write_bytes(x.as_mut_ptr(), 0xAA, n1 as usize) };
  let Ok(mut y) = a.alloc_bytes(8) else { return; };
  unsafe { core::ptr::write_bytes(y.as_mut_ptr(), 0xBB, 8) };
  let (yo, yc) = (y.offset(), y.capacity());
  assert!(x.offset() + x.capacity() <= yo || yo + yc <= x.offset());
  // exhaust fresh space: the next request can only be served from the free list
  let rem = a.remaining() as u32;
  if rem > 0 { let Ok(mut f) = a.alloc_bytes(rem) else { return; }; unsafe { f.detach(); } }
  drop(x);                                   // released below the top: goes to the free list (or is discarded)
  let before = (a.allocated(), a.discarded());
  match a.alloc_bytes(n3) {
    Ok(z) => {
      assert!(z.capacity() == n3 as usize);
      if n3 > 0 {
        assert!(!matches!(fl, Freelist::None));
        assert!(z.offset() >= a.data_offset() && z.offset() + z.capacity() <= a.allocated());
        assert!(z.offset() + z.capacity() <= yo || yo + yc <= z.offset());
        let bytes = unsafe { a.get_bytes(z.offset(), z.capacity()) };
        let i: usize = kani::any();
        kani::assume(i < bytes.len());
        assert!(bytes[i] == 0);
      }
    }
    Err(_) => { assert!((a.allocated(), a.discarded()) == before); }
  }
  // y is untouched
  let j: usize = kani::any();
  kani::assume(j < yc);
  assert!(unsafe { a.get_bytes(yo, yc) }[j] == 0xBB);
}
/// bounded(capacity 64: a block of 16..32 bytes, a live 8-byte neighbour, fresh space exhausted, the block released, then a
/// request of 0..20 bytes that can only come from the free list): C01/C03/C04/C08/C10 on the real arena
#[kani::proof]
#[kani::unwind(5)]
fn k_alloc_release_reuse_pessimistic() { alloc_release_reuse(Freelist::Pessimistic) }
#[kani::proof]
#[kani::unwind(5)]
fn k_alloc_release_reuse_optimistic() { alloc_release_reuse(Freelist::Optimistic) }
#[kani::proof]
#[kani::unwind(5)]
fn k_alloc_release_reuse_none() { alloc_release_reuse(Freelist::None) }

/// bounded(capacity 64, n <= 200): C18 truncate (Vec backend) keeps cursor, counters and every byte below allocated()
#[kani::proof]
#[kani::unwind(4)]
fn k_truncate_vec() {
  let mut a = arena(64, Freelist::None);
  let n1: u32 = kani::any();
  kani::assume(n1 >= 1 && n1 <= 40);
  let Ok(mut x) = a.alloc_bytes(n1) else { return; };
  unsafe { core::ptr::write_bytes(x.as_mut_ptr(), 0x5A, n1 as usize) };
  unsafe { x.detach(); }
  let (xo, xc) = (x.offset(), x.capacity());
  drop(x);
  let (al, di) = (a.allocated(), a.discarded());
  let n: usize = kani::any();
  kani::assume(n <= 200);
  a.truncate(n);
  assert!(a.capacity() == if n > al { n } else { al });
  assert!(a.allocated() == al && a.discarded() == di && a.remaining() == a.capacity() - al);
  let j: usize = kani::any();
  kani::assume(j < xc);
  assert!(unsafe { a.get_bytes(xo, xc) }[j] == 0x5A);
}

/// complete over the offset (full usize) for a 64-byte arena with a symbolic cursor: C15
#[kani::proof]
#[kani::unwind(4)]
fn k_reader_bounds() {
  let a = arena(64, Freelist::None);
  let n: u32 = kani::any();
  kani::assume(n <= 40);
  if let Ok(mut b) = a.alloc_bytes(n) { unsafe { b.detach(); } }
  let off: usize = kani::any();
  let al = a.allocated();
  assert!(a.get_u8(off).is_ok() == (off < al));
  assert!(a.get_u16_le(off).is_ok() == (off as u128 + 2 <= al as u128));
  assert!(a.get_u64_be(off).is_ok() == (off as u128 + 8 <= al as u128));
  assert!(a.get_u128_le(off).is_ok() == (off as u128 + 16 <= al as u128));
  assert!(a.allocated_memory().len() == al && a.memory().len() == 64 && a.data().len() == al - a.data_offset());
}

/// helper for the sync-side differential harness (validate_segment is private)
pub(crate) fn validate_segment_of(a: &Arena, offset: u32, size: u32) -> bool { a.validate_segment(offset, size) }

/// bounded(capacity 32, u32/u64 values full domain, empty buffer): C14 LEB128 put then get returns length and value
#[kani::proof]
#[kani::unwind(12)]
fn k_varint_roundtrip_u32() {
  let a = arena(48, Freelist::None);
  let mut b = a.alloc_bytes(16).unwrap();
  let v: u32 = kani::any();
  let n = b.put_u32_varint(v).unwrap();
  assert!(b.len() == n && n >= 1 && n <= 5);
  let (m, w) = b.get_u32_varint().unwrap();
  assert!(m == n && w == v);
}
#[kani::proof]
#[kani::unwind(12)]
fn k_varint_roundtrip_u64() {
  let a = arena(48, Freelist::None);
  let mut b = a.alloc_bytes(16).unwrap();
  let v: u64 = kani::any();
  let n = b.put_u64_varint(v).unwrap();
  assert!(b.len() == n && n >= 1 && n <= 10);
  let (m, w) = b.get_u64_varint().unwrap();
  assert!(m == n && w == v);
}
/// bounded(capacity 4, full u32 domain): a LEB128 put that does not fit fails and leaves len unchanged
#[kani::proof]
#[kani::unwind(12)]
fn k_varint_put_too_small() {
  let a = arena(48, Freelist::None);
  let mut b = a.alloc_bytes(2).unwrap();
  let v: u32 = kani::any();
  match b.put_u32_varint(v) {
    Ok(n) => assert!(n <= 2 && b.len() == n),
    Err(_) => assert!(b.len() == 0),
  }
}

/// bounded(16-byte buffer holding 3 bytes, live neighbour behind it, full u32 domain): the unchecked and the std::io
/// flavoured LEB128 writers append at `len`, keep what was written before and stay inside the buffer
#[kani::proof]
#[kani::unwind(18)]
fn k_varint_append_nonempty() {
  let a = arena(64, Freelist::None);
  let mut b = a.alloc_bytes(16).unwrap();
  let mut g = a.alloc_bytes(8).unwrap();
  g.put_slice(&[0xAA; 8]).unwrap();
  b.put_slice(&[0x81, 0x82, 0x83]).unwrap();
  let v: u32 = kani::any();
  let unchecked: bool = kani::any();
  let n = if unchecked { b.put_u32_varint_unchecked(v) } else { b.write_u32_varint(v).unwrap() };
  assert!(n >= 1 && n <= 5 && b.len() == 3 + n);
  assert!(b[0] == 0x81 && b[1] == 0x82 && b[2] == 0x83);
  let (m, w) = dbutils::leb128::decode_u32_varint(&b[3..]).unwrap();
  assert!(m == n && w == v);
  let mut i = 0;
  while i < 8 { assert!(g[i] == 0xAA); i += 1; }
}

// ---- C19: checksum covers exactly allocated_memory()[reserved..] -----------------------------------------------------
/// a checksummer whose digest is sensitive to dropped, duplicated or re-ordered chunks without looking at byte values
/// in a loop: digest = sum over chunks of (start position + 1) * chunk length, plus the total length in the high bits
pub(crate) struct PosSum;
pub(crate) struct PosSumState { fed: u64, acc: u64 }
impl crate::checksum::BuildChecksumer for PosSum {
  type Checksumer = PosSumState;
  fn build_checksumer(&self) -> PosSumState { PosSumState { fed: 0, acc: 0 } }
  fn checksum_one(&self, src: &[u8]) -> u64 { ((src.len() as u64) << 32) ^ (src.len() as u64) }
}
impl crate::checksum::Checksumer for PosSumState {
  fn update(&mut self, buf: &[u8]) { self.acc = self.acc.wrapping_add((self.fed + 1).wrapping_mul(buf.len() as u64)); self.fed += buf.len() as u64; }
  fn reset(&mut self) { self.fed = 0; self.acc = 0; }
  fn digest(&self) -> u64 { (self.fed << 32) ^ self.fed }
}
/// bounded(capacity 3 pages + 64, cursor symbolic over {k*page-1, k*page, k*page+1 : k = 1, 2} + reserved in {0, 1, 7}): C19
#[kani::proof]
#[kani::unwind(6)]
fn k_checksum_covers_allocated() {
  let reserved: u32 = match kani::any::<u8>() % 3 { 0 => 0, 1 => 1, _ => 7 };
  let a = Options::new().with_capacity(3 * 4096 + 64).with_reserved(reserved).with_freelist(Freelist::None).alloc::<Arena>().unwrap();
  let page = a.page_size() as u32;
  kani::assume(page == 4096);
  let k: u32 = if kani::any() { 1 } else { 2 };
  let d: u32 = kani::any();
  kani::assume(d <= 2);
  let target = k * page + reserved + d - 1;                 // allocated() - reserved in {k*page - 1, k*page, k*page + 1}
  unsafe { a.rewind(ArenaPosition::Start(target)) };
  assert!(a.allocated() as u32 == target);
  let want = (target - reserved) as u64;
  assert!(a.checksum(&PosSum) == (want << 32) ^ want);
}

/// bounded(capacity 96, Freelist::None; a buffer of 1..=24 bytes is dirtied at a symbolic index and then given up either by
/// rewind (detached) or by drop (dealloc on top); the next alloc_bytes of 1..=32 bytes must read zero at every index): C08
#[kani::proof]
#[kani::unwind(4)]
fn k_zero_after_rewind_or_release() {
  let a = Options::new().with_capacity(96).with_freelist(Freelist::None).alloc::<Arena>().unwrap();
  let mark = a.allocated() as u32;
  let (n1, n2): (u32, u32) = (kani::any(), kani::any());
  kani::assume(n1 >= 1 && n1 <= 24 && n2 >= 1 && n2 <= 32);
  let Ok(mut b) = a.alloc_bytes(n1) else { return; };
  let off = b.offset();
  let i: usize = kani::any();
  kani::assume(i < n1 as usize);
  unsafe { *a.get_pointer_mut(off).add(i) = 0xAA; }
  if kani::any() {
    unsafe { b.detach(); }
    drop(b);
    unsafe { a.rewind(ArenaPosition::Start(mark)) };
  } else {
    drop(b);
  }
  assert!(a.allocated() as u32 == mark);
  let Ok(z) = a.alloc_bytes(n2) else { return; };
  assert!(z.offset() == off && z.capacity() == n2 as usize);
  let j: usize = kani::any();
  kani::assume(j < n2 as usize);
  assert!(unsafe { a.get_bytes(z.offset(), z.capacity()) }[j] == 0);
}
