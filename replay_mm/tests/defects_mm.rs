//! Native demonstrations that need the `memmap` feature (file-backed, read-only arenas).
use rarena_allocator::{sync, unsync, Allocator, Options};

fn make_file(dir: &std::path::Path, name: &str) -> std::path::PathBuf {
  let p = dir.join(name);
  let a = unsafe {
    Options::new().with_capacity(4096).with_create_new(true).with_read(true).with_write(true)
      .map_mut::<unsync::Arena, _>(&p).unwrap()
  };
  let mut b = a.alloc_bytes(16).unwrap();
  unsafe { rarena_allocator::Buffer::detach(&mut b) };
  drop(b);
  a.flush().unwrap();
  drop(a);
  p
}

/// run `f` in a child process (re-exec of this test binary) so that a crash (SIGSEGV) is observable
fn in_child(test: &str) -> std::process::ExitStatus {
  std::process::Command::new(std::env::current_exe().unwrap())
    .args([test, "--exact", "--nocapture", "--ignored"])
    .env("RARENA_CHILD", "1")
    .stdout(std::process::Stdio::null()).stderr(std::process::Stdio::null())
    .status().unwrap()
}

// D8 (C09): a read-only arena rejects mutating calls of the safe API with an error or a documented panic, never a crash
#[test]
#[ignore]
fn child_increase_discarded_unsync() {
  if std::env::var("RARENA_CHILD").is_err() { return; }
  let d = tempfile::tempdir().unwrap();
  let p = make_file(d.path(), "a.arena");
  let before = std::fs::read(&p).unwrap();
  let ro = unsafe { Options::new().with_read(true).map::<unsync::Arena, _>(&p).unwrap() };
  let r = std::panic::catch_unwind(std::panic::AssertUnwindSafe(|| ro.increase_discarded(3)));
  assert!(r.is_err(), "documented panic expected");
  drop(ro);
  assert_eq!(std::fs::read(&p).unwrap(), before);
}
#[test]
#[ignore]
fn child_set_min_segment_sync() {
  if std::env::var("RARENA_CHILD").is_err() { return; }
  let d = tempfile::tempdir().unwrap();
  let p = make_file(d.path(), "b.arena");
  let before = std::fs::read(&p).unwrap();
  let ro = unsafe { Options::new().with_read(true).map::<sync::Arena, _>(&p).unwrap() };
  let r = std::panic::catch_unwind(std::panic::AssertUnwindSafe(|| ro.set_minimum_segment_size(77)));
  assert!(r.is_err(), "documented panic expected");
  let r = std::panic::catch_unwind(std::panic::AssertUnwindSafe(|| ro.increase_discarded(1)));
  assert!(r.is_err(), "documented panic expected");
  drop(ro);
  assert_eq!(std::fs::read(&p).unwrap(), before);
}
#[test]
fn d8_read_only_counters_do_not_crash() {
  for t in ["child_increase_discarded_unsync", "child_set_min_segment_sync"] {
    let st = in_child(t);
    assert!(st.success(), "{t}: child ended with {st:?} (a signal means the process crashed)");
  }
}

// D7 (C09): opening a file that is not a valid arena is refused AND leaves the bytes that were in the file as they were
#[test]
fn d7_refused_open_does_not_alter_the_file() {
  let d = tempfile::tempdir().unwrap();
  let p = d.path().join("foreign.bin");
  let mut content = vec![0xEEu8; 256];
  content[16..20].copy_from_slice(&24u32.to_le_bytes()); // where a header's cursor field would be
  std::fs::write(&p, &content).unwrap();
  let r = unsafe { Options::new().with_read(true).with_write(true).map_mut::<unsync::Arena, _>(&p) };
  assert!(r.is_err(), "a file without the magic text must be refused");
  drop(r);
  assert_eq!(std::fs::read(&p).unwrap(), content, "refused open altered the file");
  // a valid arena file opened with the wrong magic version is refused and left alone too
  let q = make_file(d.path(), "valid.arena");
  {
    // leave stale non-zero bytes above the cursor (rewind keeps them)
    let a = unsafe { Options::new().with_read(true).with_write(true).map_mut::<unsync::Arena, _>(&q).unwrap() };
    let mut b = a.alloc_bytes(32).unwrap();
    b.put_slice(&[0x77u8; 32]).unwrap();
    unsafe { rarena_allocator::Buffer::detach(&mut b) };
    drop(b);
    unsafe { a.rewind(rarena_allocator::ArenaPosition::Current(-32)) };
    a.flush().unwrap();
  }
  let before = std::fs::read(&q).unwrap();
  let r = unsafe { Options::new().with_read(true).with_write(true).with_magic_version(9).map_mut::<unsync::Arena, _>(&q) };
  assert!(r.is_err());
  drop(r);
  assert_eq!(std::fs::read(&q).unwrap(), before, "refused open (magic version mismatch) altered the file");
}
