// native replay harnesses (memmap feature) live in tests/
