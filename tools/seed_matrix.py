#!/usr/bin/env python3
"""Apply every seeded change (seeded/*/patch.diff) to /repo in turn, run the check of the property it breaks
(and optionally others), undo it, and write seeded/RESULTS.md.  /repo must be clean."""
import json, os, subprocess, sys, glob, re
V='/verif'
def sh(cmd, **kw): return subprocess.run(cmd, shell=True, capture_output=True, text=True, **kw)
assert sh('git -C /repo status --porcelain').stdout.strip()=='' , '/repo dirty'
rows=[]
only=sys.argv[1:]
for d in sorted(glob.glob(V+'/seeded/*/')):
    name=os.path.basename(d.rstrip('/'))
    if only and name not in only: continue
    meta=json.load(open(d+'meta.json')) if os.path.exists(d+'meta.json') else {}
    prop=meta.get('property') or name.split('-')[0]
    extra=meta.get('also_check',[])
    if meta.get('kind')=='neutral':
        # behaviour-preserving edit: applied to a private copy, every listed check must NOT raise an alarm
        w='/var/tmp/neutral-matrix'
        sh('rm -rf %s; mkdir -p %s; git -C /repo archive HEAD | tar -x -C %s; cd %s && git init -q . && git apply %spatch.diff'%(w,w,w,w,d))
        res=[]
        for p in meta.get('check_props',[]):
            r=sh('./check '+p, cwd=V, env=dict(os.environ, VERIF_DEV_REPO=w))
            res.append((p,r.returncode))
        sh('rm -rf '+w)
        bad=[p for p,rc in res if rc==1]
        rows.append((name,'(neutral)', 'FALSE ALARM' if bad else 'no alarm', ', '.join('%s:exit%d'%x for x in res)))
        print(rows[-1], flush=True)
        continue
    if sh('git -C /repo apply '+d+'patch.diff').returncode!=0:
        rows.append((name,prop,'PATCH DOES NOT APPLY','')); continue
    try:
        res=[]
        for p in [prop]+extra:
            r=sh('./check '+p, cwd=V)
            viol=sorted(set(re.findall(r'obligation=(\S+)', r.stdout)))
            res.append((p, r.returncode, viol))
    finally:
        sh('git -C /repo checkout -- .')
    main=res[0]
    rows.append((name, prop, {0:'MISSED (exit 0)',1:'DETECTED',2:'NO VERDICT (exit 2)'}.get(main[1],str(main[1])), ', '.join(main[2][:4]) + ''.join('; %s:exit%d'%(p,rc) for p,rc,_ in res[1:])))
    print(rows[-1], flush=True)
prev={}
if only and os.path.exists(V+'/seeded/RESULTS.md'):
    for l in open(V+'/seeded/RESULTS.md'):
        c=[x.strip() for x in l.strip().strip('|').split('|')]
        if len(c)==4 and c[0] not in ('seed','---'): prev[c[0]]=tuple(c)
for r in rows: prev[r[0]]=r
rows=[prev[k] for k in sorted(prev)]
with open(V+'/seeded/RESULTS.md','w') as f:
    f.write('# Seeded changes vs. checks (regenerate with tools/seed_matrix.py)\n\n| seed | property | result of `./check <property>` | failing obligations |\n|---|---|---|---|\n')
    for r in rows: f.write('| %s | %s | %s | %s |\n'%r)
