#!/usr/bin/env python3
"""Regenerate MANIFEST.json from props.json (claimed checks) + na.json (not applicable, with reasons)."""
import json, os, subprocess
V='/verif'
props=json.load(open(V+'/props.json'))
na=json.load(open(V+'/na.json'))
allp=[json.loads(l)['id'] for l in open(V+'/properties.jsonl')]
hooks=json.load(open(V+'/hooks.json'))
checks=[]
for pid in allp:
    if pid not in props: continue
    pc=props[pid]
    checks.append({
      "property_id": pid,
      "quick_cmd": "./check %s --tier quick" % pid,
      "thorough_cmd": "./check %s --tier thorough" % pid,
      "evidence_file": "/verif/evidence/%s.json" % pid,
      "replay_cmd_template": "cat {path}",
      "engine": "verus-units",
      "level_claimed": {"category": pc.get('level','proof'), "text": pc['level_text'], "design_ref": pc.get('design_ref','DESIGN.md section 6')},
      "level_note": pc['level_note'],
      "technique": pc.get('technique', "contract-based deductive verification: Verus requires/ensures/invariants on functions re-extracted from /repo each run"),
    })
not_app=[{"property_id":p,"reason":na[p]} for p in allp if p not in props]
assert all(p in props or p in na for p in allp)
m={"version":1,
   "setup_cmd":"true",
   "hooks":hooks,
   "engines":[{"name":"verus-units","path":"/verif/vf","serves_properties":[c['property_id'] for c in checks],
               "kind_free_text":"python extractor/translator/contract injector -> single-file Verus units (units/*.tpl) -> verus --output-json; Kani harness crate for bounded stand-ins"}],
   "checks":checks,
   "notes":"exit 2 from a check = tool limit / anchor lost (no verdict), never an alarm. See DESIGN.md.",
   "not_applicable":not_app}
json.dump(m,open(V+'/MANIFEST.json','w'),indent=1)
print('claimed',[c['property_id'] for c in checks]); print('n/a',[x['property_id'] for x in not_app])
