#!/usr/bin/env python3
"""show translated text of one function: show_fn.py <file> <scope|-> <name> <xlate> [st]"""
import sys, os
sys.path.insert(0, os.path.dirname(os.path.dirname(os.path.abspath(__file__))))
from vf import extract as X, translate as T, build as B
f, scope, name, xl = sys.argv[1:5]
st = sys.argv[5] if len(sys.argv) > 5 else None
src = open(B.SRC_ROOT + f).read()
text, s, e = X.extract_fn(src, name, None if scope == '-' else scope)
callees = {k: True for k in ['find_position','find_prev_and_next','optimistic_dealloc','pessimistic_dealloc','alloc_bytes_in','alloc_aligned_bytes_in','alloc_in','alloc_slow_path_pessimistic','alloc_slow_path_optimistic','discard_freelist_in','validate_segment','try_new_segment','get_segment_node','increase_discarded','remaining','allocated','update_next_node','clear','dealloc','discarded','minimum_segment_size','set_minimum_segment_size','rewind','discard_freelist']}
ctx = T.Ctx(name, xl, st, callees)
ncl = len(T.closure_sites(X.strip(text)))
sig, body = T.translate(X.strip(text), ctx, ['true'] * ncl)
print(sig); print(body); print(ctx.counts)
