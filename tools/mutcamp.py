#!/usr/bin/env python3
"""Mutation campaign against the contracts (developer tool, never part of a registered check).

Mechanical mutants (operator / constant / comparison flips) of the source lines that are under contract are applied to
private copies of /repo's HEAD; a mutant that still compiles and passes the 68 baseline tests is handed to the unit(s)
that cover the line.  Output: one JSON line per mutant in <out>; survivors (tests pass, every unit verifies) are the
interesting ones: either equivalent mutants or holes in the contracts.
Usage: mutcamp.py <out.jsonl> [--workers N] [--max M] [--files a.rs,b.rs] [--seed S]"""
import json, os, re, subprocess, sys, random, shutil, threading, queue
V = os.path.dirname(os.path.dirname(os.path.abspath(__file__)))
sys.path.insert(0, V)
out_path = sys.argv[1]
def opt(name, d):
    return sys.argv[sys.argv.index(name) + 1] if name in sys.argv else d
NW = int(opt('--workers', '4')); MAX = int(opt('--max', '200')); SEED = int(opt('--seed', '1'))
FILES = opt('--files', 'unsync.rs,sync.rs,lib.rs,memory.rs,bytes.rs,object.rs,allocator.rs').split(',')
BASE = '/var/tmp/mc'
os.makedirs(BASE, exist_ok=True)
clean = BASE + '/clean'
if not os.path.exists(clean):
    os.makedirs(clean); subprocess.run('git -C /repo archive HEAD | tar -x -C ' + clean, shell=True, check=True)
SRC = clean + '/rarena-allocator/src/'

# ---- which unit covers which line -------------------------------------------------------------------
os.environ['VERIF_DEV_REPO'] = clean
from vf import run as R, build as B
cover = {}   # file -> [(first, last, unit, fn)]
units = json.load(open(V + '/units/units.json'))
sc = R.Scratch()
for u, cfg in units.items():
    if cfg.get('generator'):
        continue   # expanded text: line numbers are those of the expansion; handled by file below
    tpl = open(V + '/units/' + cfg['template']).read()
    def inc(m): return open(V + '/units/' + m.group(1)).read()
    for _ in range(3):
        tpl = re.sub(r'^//@@include (\S+)\s*$', inc, tpl, flags=re.M)
    _, metas = B.build_unit(tpl, R.make_sources(sc))
    for m in metas:
        if m['profile'] == 'fragment' or 'expanded' in str(m.get('note', '')):
            continue
        cover.setdefault(m['file'].split('/')[-1], []).append((m['first_line'], m['last_line'], u, m['function']))
sc.cleanup()
BYFILE = {'bytes.rs': ['U_handles'], 'object.rs': ['U_handles'], 'allocator.rs': ['U_readers']}
MACRO = {'lib.rs': (290, 800, ['U_handles']), 'allocator.rs': (1, 140, ['U_readers'])}

def units_for(f, ln):
    us = sorted({u for a, b, u, _ in cover.get(f, []) if a <= ln <= b})
    if us: return us
    if f in MACRO and MACRO[f][0] <= ln <= MACRO[f][1]: return MACRO[f][2]
    if f in BYFILE: return BYFILE[f]
    return []

OPS = [(r' \+ ', ' - '), (r' - ', ' + '), (r' < ', ' <= '), (r' <= ', ' < '), (r' > ', ' >= '), (r' >= ', ' > '),
       (r' == ', ' != '), (r' != ', ' == '), (r' && ', ' || '), (r' \|\| ', ' && '), (r'\bmemory_offset\b', 'ptr_offset'), (r'\bptr_offset\b', 'memory_offset'),
       (r'\bmemory_size\b', 'ptr_size'), (r'\bptr_size\b', 'memory_size'), (r' \+= ', ' -= '), (r' -= ', ' += '), (r'\b1\b', '2'), (r'\b0\b', '1'),
       (r'\.max\(', '.min('), (r'\.min\(', '.max(')]
muts = []
for f in FILES:
    lines = open(SRC + f).read().split('\n')
    in_test = False
    for i, l in enumerate(lines, 1):
        s = l.strip()
        if s.startswith('//') or s.startswith('#[') or 'tracing::' in l or not s: continue
        if re.match(r'\s*mod tests', l): break
        us = units_for(f, i)
        if not us: continue
        code = l.split('//')[0]
        for pat, rep in OPS:
            for k, m in enumerate(re.finditer(pat, code)):
                new = l[:m.start()] + re.sub(pat, rep, l[m.start():m.end()]) + l[m.end():]
                muts.append({'file': f, 'line': i, 'old': l.strip(), 'new': new.strip(), 'newline': new, 'units': us})
random.Random(SEED).shuffle(muts)
muts = muts[:MAX]
print('mutants:', len(muts), flush=True)

q = queue.Queue()
for m in muts: q.put(m)
lock = threading.Lock()
outf = open(out_path, 'a')

def sh(cmd, env=None, timeout=900, cwd=None):
    # own process group: a mutant can make a test spin for ever, the whole group is killed on timeout
    import signal
    p = subprocess.Popen(cmd, shell=True, stdout=subprocess.PIPE, stderr=subprocess.STDOUT, text=True, env=env, cwd=cwd, preexec_fn=os.setsid)
    try:
        out, _ = p.communicate(timeout=timeout)
        return p.returncode, out
    except subprocess.TimeoutExpired:
        try: os.killpg(p.pid, signal.SIGKILL)
        except ProcessLookupError: pass
        p.communicate()
        return 124, 'timeout'

def worker(w):
    wd = '%s/w%d' % (BASE, w)
    repo = wd + '/repo'
    if not os.path.exists(repo):
        os.makedirs(wd, exist_ok=True); shutil.copytree(clean, repo)
    env = dict(os.environ, CARGO_NET_OFFLINE='true', CARGO_TARGET_DIR=wd + '/target', VERIF_DEV_REPO=repo, VERIF_DEV_EXPAND_TARGET=wd + '/expand-target')
    env.pop('VERIF_DEV_SRC_ROOT', None)
    while True:
        try: m = q.get_nowait()
        except queue.Empty: return
        path = repo + '/rarena-allocator/src/' + m['file']
        orig = open(SRC + m['file']).read()
        lines = orig.split('\n'); lines[m['line'] - 1] = m['newline']
        open(path, 'w').write('\n'.join(lines))
        res = dict(m); res.pop('newline')
        rc, out = sh('cargo test --workspace --offline --lib --no-fail-fast 2>&1 | tail -5', env=env, cwd=repo, timeout=240)
        if 'test result: ok' not in out or 'FAILED' in out or 'error' in out:
            res['verdict'] = 'killed-by-tests-or-compile'
        else:
            verd = {}
            for u in m['units']:
                rc, o = sh('python3 %s/tools/unit.py %s --keep %s/units' % (V, u, wd), env=env, timeout=1800)
                mm = re.search(r'failed fns: \[(.*?)\]', o)
                sem = re.findall(r'^--- SEM (.*?) \| fn (\S+)', o, re.M)
                tool = re.findall(r'^--- TOOL (.*?) \| fn (\S+)', o, re.M)
                if 'ANCHOR LOST' in o or 'TOOL ERROR' in o or (tool and not sem):
                    verd[u] = 'no-verdict: ' + (o.strip().split('\n')[0][:150] if 'ANCHOR' in o else str(tool[:2]))
                elif sem:
                    verd[u] = 'caught: ' + ', '.join(sorted({'%s(%s)' % (f, k) for k, f in sem}))[:300]
                elif mm is not None and mm.group(1).strip() == '':
                    verd[u] = 'verified'
                else:
                    verd[u] = 'unknown: ' + o[-200:]
            res['units_verdict'] = verd
            vs = list(verd.values())
            res['verdict'] = 'caught' if any(v.startswith('caught') for v in vs) else ('no-verdict' if any(v.startswith('no-verdict') or v.startswith('unknown') for v in vs) else 'SURVIVED')
        open(path, 'w').write(orig)
        with lock:
            outf.write(json.dumps(res) + '\n'); outf.flush()
            print(res['verdict'], m['file'], m['line'], m['old'][:60], '=>', m['new'][:60], flush=True)

ts = [threading.Thread(target=worker, args=(i,)) for i in range(NW)]
for t in ts: t.start()
for t in ts: t.join()
