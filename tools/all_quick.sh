#!/bin/bash
# Run every registered quick command on the unchanged /repo the way the acceptance run does: evidence file removed first,
# exit 0, no VIOLATION line, evidence rewritten.  Last step before committing /verif (DESIGN.md section 14).
# usage: tools/all_quick.sh [--fresh]     --fresh also drops the optional dependency cache under /var/tmp
cd /verif || exit 2
[ -z "$(git -C /repo status --porcelain)" ] || { echo "/repo is not clean"; exit 2; }
[ "$1" = "--fresh" ] && rm -rf /var/tmp/rarena-verif-cache
export CARGO_NET_OFFLINE=true GOPROXY=off PIP_NO_INDEX=1 VERIF_SEED=1 VERIF_TIER=quick
bad=0
python3 - <<'P' > /var/tmp/all_quick.$$
import json
for c in json.load(open('/verif/MANIFEST.json'))['checks']:
    print(c['property_id'] + '\t' + c['evidence_file'] + '\t' + c['quick_cmd'])
P
while IFS=$'\t' read -r id ev cmd; do
  rm -f "$ev"; s=$(date +%s)
  out=$(bash -c "$cmd" 2>&1); rc=$?
  st=ok
  [ $rc -eq 0 ] || st="EXIT $rc"
  echo "$out" | grep -q VIOLATION && st="VIOLATION line"
  [ -f "$ev" ] || st="$st, evidence not rewritten"
  [ "$st" = ok ] || { bad=1; echo "$out" | tail -5; }
  echo "$id: $st ($(( $(date +%s)-s )) s)"
done < /var/tmp/all_quick.$$
rm -f /var/tmp/all_quick.$$
exit $bad
