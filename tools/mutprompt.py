#!/usr/bin/env python3
"""Print the prompt handed to a fresh sub-agent that seeds a property-breaking change.
Usage: mutprompt.py <ID> <worktree-dir> [variant-hint]"""
import json, sys
pid, wd = sys.argv[1], sys.argv[2]
hint = sys.argv[3] if len(sys.argv) > 3 else ''
p = [json.loads(l) for l in open('/verif/properties.jsonl') if json.loads(l)['id'] == pid][0]
print(f"""You are working in a scratch git worktree of the Rust project al8n/rarena at {wd} (crate `rarena-allocator`: a lock-free arena allocator with sync and unsync variants). Do all of your work inside {wd} only. Never touch or read /repo or /verif. There is no network: always pass `--offline` to cargo.

This property is meant to hold for the unmodified code:

  {p['id']} - {p['title']}
  Statement: {p['statement']}
  Quantifier: {p['quantifier']['text']}

Your task: produce a small change to the library's non-test source (under rarena-allocator/src, not the tests) that BREAKS this property while
 (a) the project still compiles,
 (b) the existing test suite still passes completely: `cd {wd} && cargo test --workspace --no-fail-fast --offline` (68 unit tests, default features; file-backed arenas additionally need `--features memmap`, you may use that feature in your demonstration via `cargo test -p rarena-allocator --features memmap --offline --test <name>`),
 (c) the change looks like a realistic programming slip (a refactoring mistake, a wrong variable of the same type, an off-by-one, a dropped or misplaced guard/step, an "optimisation"), not obvious sabotage, and is only a few lines.
The breakage must need something specific in order to manifest - a multi-step sequence of operations, an unusual input or size/alignment combination, a particular arena state, or two cooperating sites that each look fine alone - NOT something that ordinary use would expose at once. {hint}

Also write a demonstration: an integration test file `rarena-allocator/tests/demo_{pid.lower()}.rs` using only the public API (or, if the public API cannot observe it, a small unit test module added in a separate new file) that FAILS with your change applied and PASSES on the unmodified code. Check both directions yourself (save your change with `git diff > /tmp/p_$$.diff`, undo it with `git apply -R`, run the demo, re-apply with `git apply`, run again; NEVER use `git stash`: it is shared between worktrees and other agents work in sibling worktrees) and also re-run the full existing suite with the change applied.

Deliver in {wd}/_out/ :
  - patch.diff : `git diff` of the library source change only (not the demo), relative to HEAD, applicable with `git apply` from the repository root;
  - the demo test file (copy);
  - notes.md : what the change is, why it breaks the property, what it needs in order to manifest, and the exact commands you ran with their results (full suite with change: pass count; demo with change: fails; demo without change: passes).
Do not commit anything. When finished, delete the `target` directory inside {wd} to free disk space, and answer with a summary of at most 150 words.""")
