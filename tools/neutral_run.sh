#!/bin/bash
# Run checks against a behaviour-preserving edit applied to a private copy of /repo (never /repo itself).
# Usage: neutral_run.sh <seeded-dir> <PROP>...
D=$(realpath "$1"); shift
W=/var/tmp/neutral-$$; mkdir -p $W; git -C /repo archive HEAD | tar -x -C $W
trap 'rm -rf $W' EXIT
(cd $W && git init -q . && git apply $D/patch.diff) || { echo "PATCH DOES NOT APPLY"; exit 2; }
export VERIF_DEV_REPO=$W
cd /verif
for p in "$@"; do r=$(./check $p | grep -E "^VIOLATION|^TOOL|^property=" | cut -c1-160 | tail -3); echo "--- $p: $r"; done
