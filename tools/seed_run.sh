#!/bin/bash
# Run registered checks against a seeded change applied to /repo, then undo it.
# Usage: seed_run.sh <seeded-dir> <PROP> [<PROP>...]
D=$(realpath "$1"); shift
cd /repo && git diff --quiet || { echo "/repo is dirty"; exit 2; }
git -C /repo apply $D/patch.diff || { echo "PATCH DOES NOT APPLY"; exit 2; }
trap 'git -C /repo checkout -- .' EXIT
cd /verif
for p in "$@"; do echo "--- check $p"; ./check $p | grep -E "^VIOLATION|^KNOWN|^TOOL|^property=" ; echo "exit=${PIPESTATUS[0]}"; done
