#!/usr/bin/env python3
"""Developer helper: build one unit from /repo, run Verus, print classified failures.
Usage: tools/unit.py U_arith [--keep DIR]"""
import sys, os, json
sys.path.insert(0, os.path.dirname(os.path.dirname(os.path.abspath(__file__))))
from vf import run as R, extract as X
unit = sys.argv[1]
keep = sys.argv[3] if len(sys.argv) > 3 and sys.argv[2] == '--keep' else '/var/tmp/units-dev'
os.environ['VERIF_KEEP_UNITS'] = keep
sc = R.Scratch()
try:
    try:
        bv = R.build_and_verify(unit, sc)
    except X.AnchorLost as e:
        print('ANCHOR LOST:', e); sys.exit(2)
    v = bv['verus']
    print('verus exit', v.get('exit'), 'wall %.1fs' % v['wall_s'], 'results', v['results'].get('verified'), 'verified', v['results'].get('errors'), 'errors', 'smt_ms', v.get('smt_ms'))
    if v['tool_error']: print('TOOL ERROR', v['tool_error'])
    for f in bv['failures']:
        print('---', 'SEM' if f['semantic'] else 'TOOL', f['kind'], '| fn', f['function'], '| labels', f['labels'])
        print(f['rendered'])
    print('twins', len(bv['twins']), 'vacuous', len(bv['vacuous_twins']), bv['vacuous_twins'][:5])
    slow = sorted(((x['time_us'] or 0, n) for n, x in v['functions'].items()), reverse=True)[:8]
    print('slowest:', [(n.split('::')[-1], t // 1000) for t, n in slow])
    bad = [n for n, x in v['functions'].items() if not x['success'] and 'reach__' not in n]
    print('failed fns:', bad)
finally:
    sc.cleanup()
