#!/bin/bash
# Confirm a seeded change in a fresh scratch worktree of /repo HEAD:
#   baseline suite passes with the patch, demo fails with it and passes without it.
# Usage: seed_confirm.sh <seeded-dir>     (expects patch.diff and demo_*.rs)
set -u
D=$(realpath "$1"); FEAT="${2:-}"; W=/var/tmp/seedwt-$$; export CARGO_NET_OFFLINE=true
git -C /repo worktree add -q --detach $W HEAD || exit 2
trap 'git -C /repo worktree remove --force $W >/dev/null 2>&1; rm -rf $W' EXIT
cd $W
demo=$(ls $D/demo_*.rs | head -1); name=$(basename $demo .rs)
mkdir -p rarena-allocator/tests; cp $demo rarena-allocator/tests/$name.rs
echo "== demo WITHOUT patch"; cargo test -p rarena-allocator $FEAT --offline --test $name 2>&1 | grep -E "^test result|error(\[|:)" | head -3
git apply $D/patch.diff || { echo "PATCH DOES NOT APPLY"; exit 2; }
echo "== baseline suite WITH patch"; cargo test --workspace --no-fail-fast --offline --lib 2>&1 | grep -E "^test result|error(\[|:)" | head -3
echo "== demo WITH patch"; cargo test -p rarena-allocator $FEAT --offline --test $name 2>&1 | grep -E "^test result|error(\[|:)" | head -3
